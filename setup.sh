#!/bin/sh
# Builds the gosym engine from files on disk only (offline).
set -e
cd "$(dirname "$0")"
export GOFLAGS=-mod=mod GOPROXY=off GOSUMDB=off GOTOOLCHAIN=local
mkdir -p bin out evidence
go build -o bin/gosym ./cmd/gosym
