package node_test

// Native reproducer for the C01/C05 finding "second Kill on a busy process": found by the
// concurrency-mode check (schedule: sender, Kill, Kill, terminate goroutine overlapping the running
// handler). Run with: go test -overlay <overlay mapping this file to /repo/node/zz_finding_doublekill_test.go>
//   -run TestFindingDoubleKill ./node/

import (
	"sync/atomic"
	"testing"
	"time"

	"ergo.services/ergo"
	"ergo.services/ergo/act"
	"ergo.services/ergo/gen"
)

type dkActor struct {
	act.Actor
	in      *int32
	overlap *int32
	block   chan struct{}
	entered chan struct{}
}

func (a *dkActor) HandleMessage(from gen.PID, message any) error {
	atomic.AddInt32(a.in, 1)
	close(a.entered)
	<-a.block
	atomic.AddInt32(a.in, -1)
	return nil
}

func (a *dkActor) Terminate(reason error) {
	if atomic.LoadInt32(a.in) != 0 {
		atomic.StoreInt32(a.overlap, 1)
	}
}

func TestFindingDoubleKill(t *testing.T) {
	opts := gen.NodeOptions{}
	opts.Network.Mode = gen.NetworkModeDisabled
	opts.Log.Level = gen.LogLevelDisabled
	n, err := ergo.StartNode("dk@localhost", opts)
	if err != nil {
		t.Fatal(err)
	}
	defer n.StopForce()
	var in, overlap int32
	block := make(chan struct{})
	entered := make(chan struct{})
	pid, err := n.Spawn(func() gen.ProcessBehavior {
		return &dkActor{in: &in, overlap: &overlap, block: block, entered: entered}
	}, gen.ProcessOptions{})
	if err != nil {
		t.Fatal(err)
	}
	if err := n.Send(pid, "go"); err != nil {
		t.Fatal(err)
	}
	<-entered // the handler is running
	n.Kill(pid)
	n.Kill(pid) // second kill while the handler is still busy
	time.Sleep(200 * time.Millisecond)
	close(block)
	time.Sleep(200 * time.Millisecond)
	if atomic.LoadInt32(&overlap) != 0 {
		t.Fatal("VERIF-FINDING terminate callback ran while a message handler of the same process was still executing")
	}
}
