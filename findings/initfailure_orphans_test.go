//go:build ignore

// Native reproducer of the C10 finding "init-failure-orphans" (fixed by 24c05d4): copy to
// /repo/act/zz_probe_test.go and run `go test -run TestProbePoolInitFailure ./act/`.
// Before the fix: FAIL "orphans: 1 processes keep running although their owner never started".
package act_test

import (
	"errors"
	"sync/atomic"
	"testing"
	"time"

	"ergo.services/ergo/act"
	"ergo.services/ergo/gen"
	"ergo.services/ergo/node"
)

var zzN int32

type zzW struct{ act.Actor }

func (w *zzW) Init(args ...any) error {
	if atomic.AddInt32(&zzN, 1) == 2 {
		return errors.New("second worker fails to start")
	}
	return nil
}
func zzWF() gen.ProcessBehavior { return &zzW{} }

type zzP struct{ act.Pool }

func zzPF() gen.ProcessBehavior { return &zzP{} }
func (p *zzP) Init(args ...any) (act.PoolOptions, error) {
	return act.PoolOptions{PoolSize: 3, WorkerFactory: zzWF}, nil
}

func TestProbePoolInitFailure(t *testing.T) {
	atomic.StoreInt32(&zzN, 0)
	nopt := gen.NodeOptions{}
	nopt.Log.DefaultLogger.Disable = true
	n, err := node.Start("zzprobe@localhost", nopt, gen.Version{})
	if err != nil {
		t.Fatal(err)
	}
	defer n.StopForce()
	before, _ := n.ProcessList()
	_, err = n.Spawn(zzPF, gen.ProcessOptions{})
	if err == nil {
		t.Fatal("expected the pool to fail to start")
	}
	time.Sleep(500 * time.Millisecond)
	after, _ := n.ProcessList()
	if len(after) != len(before) {
		t.Fatalf("orphans: %d processes keep running although their owner never started", len(after)-len(before))
	}
}
