//go:build ignore

// Native reproducer of the C20 finding "lastweekday-dst": copy to /repo/node/ and run go test -run TestProbeLastWeekdayDST ./node/
package node

import (
	"testing"
	"time"

	"ergo.services/ergo/gen"
)

func TestProbeLastWeekdayDST(t *testing.T) {
	loc, err := time.LoadLocation("Europe/Berlin")
	if err != nil {
		t.Skip(err)
	}
	mask, err := cronParseSpec(gen.CronJob{Name: "j", Spec: "* * * * 7L"})
	if err != nil {
		t.Fatal(err)
	}
	a := time.Date(2024, 3, 24, 23, 30, 0, 0, loc) // not the last Sunday of March 2024 (the 31st is)
	if mask.IsRunAt(a) {
		t.Errorf("7L fires on %v, which is not the last Sunday of the month", a)
	}
	b := time.Date(2026, 10, 25, 0, 15, 0, 0, loc) // the last Sunday of October 2026
	if !mask.IsRunAt(b) {
		t.Errorf("7L does not fire on %v, the last Sunday of the month", b)
	}
}
