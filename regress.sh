#!/bin/bash
# usage: regress.sh [tier] [ids...]   runs the registered checks one after the other on /repo as it is
tier=${1:-quick}; shift
ids=${@:-C01 C02 C03 C04 C05 C06 C07 C08 C09 C10 C11 C12 C13 C14 C15 C16 C17 C18 C19 C20}
cd /verif
for id in $ids; do
  t0=$(date +%s)
  out=$(timeout 3600 ./check $id $tier 2>&1); rc=$?
  t1=$(date +%s)
  echo "$id rc=$rc wall=$((t1-t0))s $(echo "$out" | grep -c '^KNOWN-FINDING') known; $(echo "$out" | grep -v '^KNOWN-FINDING' | tail -n 1 | cut -c1-200)"
done
