#!/bin/bash
# usage: seedrun.sh <seed-id> <property> [tier]
# Applies /verif/seeded/<seed-id>/patch.diff to /repo, runs the property's check, undoes the change.
# The property's evidence file is put back afterwards: committed evidence must describe /repo itself.
sid=$1; prop=$2; tier=${3:-quick}
cp /verif/evidence/$prop.json /tmp/evidence_keep_$prop.json 2>/dev/null
cd /repo && git apply /verif/seeded/$sid/patch.diff || exit 3
echo "== $sid applied to /repo; check $prop $tier"
(cd /verif && timeout 1500 ./bin/gosym.seed check $prop $tier 2>&1 | cut -c1-300 | grep -v '^KNOWN-FINDING' | tail -n 5; echo "check exit=${PIPESTATUS[0]}")
git -C /repo checkout -- . ; git -C /repo status --short | head -3
cp /tmp/evidence_keep_$prop.json /verif/evidence/$prop.json 2>/dev/null; rm -f /tmp/evidence_keep_$prop.json
