//go:build verif

package lib

// VerifC03MPSC (concurrency mode): P producers push k tagged values each into one real lock-free
// queue while a consumer pops; for every interleaving of the queue's atomic steps the consumer sees
// each producer's values in push order, and at quiescence nothing is lost or duplicated.
func VerifC03MPSC() {
	producers := VerifParam("producers", 2)
	k := VerifParam("pushes", 2)
	pops := VerifParam("pops", 3)
	limit := VerifParam("limit", 0)
	var q QueueMPSC
	if limit > 0 {
		q = NewQueueLimitMPSC(int64(limit), false)
	} else {
		q = NewQueueMPSC()
	}
	lastSeen := make([]int, producers) // per producer: last sequence number the consumer saw
	pushed := make([]int, producers)
	for p := 0; p < producers; p++ {
		p := p
		VerifGo("producer", func() {
			for i := 1; i <= k; i++ {
				if q.Push(p*100 + i) {
					VerifSharedStore(&pushed[p], i)
				}
			}
		})
	}
	consume := func(v any) {
		x := v.(int)
		p, i := x/100, x%100
		prev := VerifSharedLoad(&lastSeen[p])
		VerifAssert(i == prev+1, "values of one producer are popped in push order, each exactly once")
		VerifSharedStore(&lastSeen[p], i)
	}
	VerifGo("consumer", func() {
		for n := 0; n < pops; n++ {
			v, ok := q.Pop()
			if ok {
				consume(v)
			}
		}
	})
	VerifAtQuiescence(func() {
		// drain what is left, then account for everything
		for {
			v, ok := q.Pop()
			if !ok {
				break
			}
			consume(v)
		}
		for p := 0; p < producers; p++ {
			VerifAssert(VerifSharedLoad(&lastSeen[p]) == VerifSharedLoad(&pushed[p]), "every accepted value is popped exactly once")
		}
		VerifAssert(q.Item() == nil, "an emptied queue is empty")
	})
}
