//go:build verif

package act

import (
	"errors"

	"ergo.services/ergo/gen"
	"ergo.services/ergo/lib"
)

// vfLog is a silent gen.Log.
type vfLog struct{ gen.Log }

func (vfLog) Level() gen.LogLevel                 { return gen.LogLevelInfo }
func (vfLog) Trace(format string, args ...any)   {}
func (vfLog) Debug(format string, args ...any)   {}
func (vfLog) Info(format string, args ...any)    {}
func (vfLog) Warning(format string, args ...any) {}
func (vfLog) Error(format string, args ...any)   {}
func (vfLog) Panic(format string, args ...any)   {}

type vfSpawn struct {
	pid        gen.PID
	name       gen.Atom
	linkParent bool
	linkChild  bool
}

type vfExit struct {
	pid    gen.PID
	reason error
}

type vfForward struct {
	to       gen.PID
	msg      *gen.MailboxMessage
	priority gen.MessagePriority
	err      error
}

// vfProcess is a fake gen.Process: it records what the behaviour asks of the node. Methods that
// are not overridden are nil (calling one panics, which the executor reports).
type vfProcess struct {
	gen.Process
	self     gen.PID
	name     gen.Atom
	state    gen.ProcessState
	behavior gen.ProcessBehavior
	mailbox  gen.ProcessMailbox

	nextID    uint64
	spawns    []vfSpawn
	alive     map[gen.PID]bool
	exits     []vfExit // SendExit calls in order
	pending   []vfExit // exits requested and not yet honoured by the child
	forwards  []vfForward
	responses int
	spawnFail bool // next spawn fails
	fwdResult func(to gen.PID) error
}

var errVfCrash = errors.New("crash")

func newVfProcess(b gen.ProcessBehavior) *vfProcess {
	p := &vfProcess{
		self:     gen.PID{Node: "n@h", ID: 100, Creation: 1},
		name:     "sup",
		state:    gen.ProcessStateRunning,
		behavior: b,
		nextID:   1000,
		alive:    map[gen.PID]bool{},
	}
	p.mailbox.Main = lib.NewQueueMPSC()
	p.mailbox.System = lib.NewQueueMPSC()
	p.mailbox.Urgent = lib.NewQueueMPSC()
	p.mailbox.Log = lib.NewQueueMPSC()
	return p
}

func (p *vfProcess) Name() gen.Atom                  { return p.name }
func (p *vfProcess) PID() gen.PID                    { return p.self }
func (p *vfProcess) State() gen.ProcessState         { return p.state }
func (p *vfProcess) Log() gen.Log                    { return vfLog{} }
func (p *vfProcess) Mailbox() gen.ProcessMailbox     { return p.mailbox }
func (p *vfProcess) Behavior() gen.ProcessBehavior   { return p.behavior }
func (p *vfProcess) Parent() gen.PID                 { return gen.PID{Node: "n@h", ID: 1, Creation: 1} }
func (p *vfProcess) Leader() gen.PID                 { return gen.PID{Node: "n@h", ID: 1, Creation: 1} }

func (p *vfProcess) spawn(name gen.Atom, options gen.ProcessOptions) (gen.PID, error) {
	if p.spawnFail {
		p.spawnFail = false
		return gen.PID{}, gen.ErrTaken
	}
	p.nextID++
	pid := gen.PID{Node: "n@h", ID: p.nextID, Creation: 1}
	p.spawns = append(p.spawns, vfSpawn{pid: pid, name: name, linkParent: options.LinkParent, linkChild: options.LinkChild})
	p.alive[pid] = true
	return pid, nil
}

func (p *vfProcess) Spawn(factory gen.ProcessFactory, options gen.ProcessOptions, args ...any) (gen.PID, error) {
	return p.spawn("", options)
}

func (p *vfProcess) SpawnRegister(register gen.Atom, factory gen.ProcessFactory, options gen.ProcessOptions, args ...any) (gen.PID, error) {
	return p.spawn(register, options)
}

func (p *vfProcess) Send(to any, message any) error {
	if pid, ok := to.(gen.PID); ok && pid == p.self {
		m := gen.TakeMailboxMessage()
		m.From = p.self
		m.Type = gen.MailboxMessageTypeRegular
		m.Message = message
		p.mailbox.Main.Push(m)
	}
	return nil
}

func (p *vfProcess) SendExit(to gen.PID, reason error) error {
	if !p.alive[to] {
		return gen.ErrProcessUnknown
	}
	p.exits = append(p.exits, vfExit{to, reason})
	p.pending = append(p.pending, vfExit{to, reason})
	return nil
}

func (p *vfProcess) SendResponse(to gen.PID, ref gen.Ref, message any) error {
	p.responses++
	return nil
}

func (p *vfProcess) Forward(to gen.PID, message *gen.MailboxMessage, priority gen.MessagePriority) error {
	var err error
	if p.fwdResult != nil {
		err = p.fwdResult(to)
	}
	p.forwards = append(p.forwards, vfForward{to, message, priority, err})
	return err
}

// deliverExit puts the exit signal of a dead child into the Urgent queue like the node does.
func (p *vfProcess) deliverExit(pid gen.PID, reason error) {
	delete(p.alive, pid)
	for i, e := range p.pending {
		if e.pid == pid {
			p.pending = append(p.pending[:i:i], p.pending[i+1:]...)
			break
		}
	}
	m := gen.TakeMailboxMessage()
	m.From = pid
	m.Type = gen.MailboxMessageTypeExit
	m.Message = gen.MessageExitPID{PID: pid, Reason: reason}
	p.mailbox.Urgent.Push(m)
}

func factoryNil() gen.ProcessBehavior { return nil }

func errorsIs(err, target error) bool { return errors.Is(err, target) }
