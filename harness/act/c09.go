//go:build verif

package act

import (
	"ergo.services/ergo/lib"
)

// VerifC09Intensity drives the real supCheckRestartIntensity through k consecutive child failures
// at symbolic instants (clock advanced by a symbolic dt before each call) and compares its verdict
// with the statement: exceeded exactly when this failure is the (Intensity+1)-th within Period
// seconds. Instants within 50 ms of the window edge are assumed away (the statement leaves the
// closed/open end open, and the native replay realises the clock by sleeping).
func VerifC09Intensity() {
	k := lib.VerifParam("calls", 5)
	intensity := lib.VerifInt("intensity")
	period := lib.VerifInt("period")
	lib.VerifAssume(intensity >= 1 && intensity <= lib.VerifParam("maxintensity", 3))
	// band 0: periods 1..3 s, so that the clock steps below reach both sides of the window;
	// band 1: any other period of the uint16 range (every failure then lies inside the window)
	if lib.VerifPick("band", 2) == 0 {
		lib.VerifAssume(period >= 1 && period <= 3)
	} else {
		lib.VerifAssume(period >= 4 && period <= 65535)
	}
	var restarts []int64
	var times []int64
	t := int64(0)
	win := int64(period) * 1000
	for i := 0; i < k; i++ {
		dt := lib.VerifInt64("dt")
		lib.VerifAssume(dt >= 0 && dt <= 3500)
		lib.VerifClockAdvance(dt)
		t += dt
		times = append(times, t)
		var exceeded bool
		restarts, exceeded = supCheckRestartIntensity(restarts, period, intensity)
		cnt := 0
		for j := 0; j <= i; j++ {
			d := t - times[j]
			lib.VerifAssume(d < win-50 || d > win+50)
			cnt += lib.VerifIte(d <= win, 1, 0)
		}
		lib.VerifReach("call compared")
		lib.VerifAssert(exceeded == (cnt > intensity), "exceeded exactly on the (Intensity+1)-th failure within Period")
		lib.VerifAssert(len(restarts) <= intensity+1, "restart history stays bounded by Intensity+1")
		if exceeded {
			lib.VerifReach("gave up")
			return
		}
	}
}
