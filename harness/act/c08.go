//go:build verif

package act

import (
	"errors"

	"ergo.services/ergo/gen"
	"ergo.services/ergo/lib"
)

type vfSupBehavior struct {
	Supervisor
	spec     SupervisorSpec
	order    []int       // payloads of regular messages / requests in handling order
	onHandle func(n int) // called inside every handler with the number handled before it
}

func (b *vfSupBehavior) HandleMessage(from gen.PID, message any) error {
	if b.onHandle != nil {
		b.onHandle(len(b.order))
	}
	if m, ok := message.(int); ok {
		b.order = append(b.order, m)
	}
	return nil
}

func (b *vfSupBehavior) Init(args ...any) (SupervisorSpec, error) { return b.spec, nil }

var vfChildNames = []gen.Atom{"c0", "c1", "c2", "c3"}

type c08Env struct {
	b        *vfSupBehavior
	p        *vfProcess
	n        int
	typ      SupervisorType
	strategy SupervisorStrategy
	keep     bool
	final    error // non-nil once ProcessRun returned a reason (supervisor terminating)
	lastExit []int // per spec: 0 none, 1 normal/shutdown, 2 abnormal
	exited   []int // per spec: number of exits seen
	stopping []bool
}

// c08Period is the restart period (seconds) of the next supervisor built by c08Setup.
var c08Period uint16 = 5

func c08Setup(typ SupervisorType, strategy SupervisorStrategy, keep bool, n int, intensity uint16, sig []bool, noAuto bool) *c08Env {
	b := &vfSupBehavior{}
	b.spec.Type = typ
	b.spec.Restart.Strategy = strategy
	b.spec.Restart.KeepOrder = keep
	b.spec.Restart.Intensity = intensity
	b.spec.Restart.Period = c08Period
	b.spec.DisableAutoShutdown = noAuto
	for i := 0; i < n; i++ {
		cs := SupervisorChildSpec{Name: vfChildNames[i], Factory: factoryNil}
		if sig != nil {
			cs.Significant = sig[i]
		}
		b.spec.Children = append(b.spec.Children, cs)
	}
	p := newVfProcess(b)
	e := &c08Env{b: b, p: p, n: n, typ: typ, strategy: strategy, keep: keep}
	e.lastExit = make([]int, n)
	e.exited = make([]int, n)
	err := b.ProcessInit(p)
	lib.VerifAssert(err == nil, "supervisor init succeeds")
	return e
}

// specOf maps a pid to the spec index it was spawned for (-1 if unknown).
func (e *c08Env) specOf(pid gen.PID) int {
	for _, s := range e.p.spawns {
		if s.pid == pid {
			for i := 0; i < e.n; i++ {
				if vfChildNames[i] == s.name {
					return i
				}
			}
		}
	}
	return -1
}

func (e *c08Env) livePid(i int) (gen.PID, bool) {
	for k := len(e.p.spawns) - 1; k >= 0; k-- {
		s := e.p.spawns[k]
		if s.name == vfChildNames[i] && e.p.alive[s.pid] {
			return s.pid, true
		}
	}
	return gen.PID{}, false
}

func (e *c08Env) spawnCount(i int) int {
	c := 0
	for _, s := range e.p.spawns {
		if s.name == vfChildNames[i] {
			c++
		}
	}
	return c
}

// childExits delivers the exit of pid with reason and runs the real supervisor.
func (e *c08Env) childExits(pid gen.PID, reason error) {
	i := e.specOf(pid)
	if i >= 0 {
		e.exited[i]++
		if reason == gen.TerminateReasonNormal || reason == gen.TerminateReasonShutdown {
			e.lastExit[i] = 1
		} else {
			e.lastExit[i] = 2
		}
	}
	e.p.deliverExit(pid, reason)
	if e.final != nil {
		// the supervisor is waiting for its children to go: it must finish once they have
		e.final = e.b.ProcessRun()
		return
	}
	e.final = e.b.ProcessRun()
}

// drain honours every pending exit request (children obey the exits they were sent), FIFO.
func (e *c08Env) drain(max int) bool {
	for k := 0; k < max; k++ {
		if len(e.p.pending) == 0 {
			return true
		}
		x := e.p.pending[0]
		e.childExits(x.pid, x.reason)
	}
	return len(e.p.pending) == 0
}

// view checks that the supervisor's idea of its children equals reality (no exit went unnoticed).
func (e *c08Env) view(tag string) {
	for _, c := range e.b.Children() {
		var empty gen.PID
		i := -1
		for k := 0; k < e.n; k++ {
			if vfChildNames[k] == c.Spec {
				i = k
			}
		}
		if i < 0 {
			continue
		}
		pid, live := e.livePid(i)
		if c.PID == empty {
			lib.VerifAssert(!live, tag+": a running child is unknown to the supervisor")
		} else {
			lib.VerifAssert(live && pid == c.PID, tag+": supervisor lists a child that is not running")
		}
	}
}

func c08Reason(k int) error {
	switch k {
	case 0:
		return gen.TerminateReasonNormal
	case 1:
		return gen.TerminateReasonShutdown
	}
	return errVfCrash
}

// VerifC08History: real act.Supervisor on a fake process; symbolic history of child exits.
// Shards: type (one/all/rest-for-one) x strategy (transient/temporary/permanent) x KeepOrder.
func VerifC08History() {
	sh := lib.VerifShard("cfg", 18)
	typ := SupervisorType(sh % 3)
	strategy := SupervisorStrategy((sh / 3) % 3)
	keep := (sh/9)%2 == 1
	n := lib.VerifParam("children", 2)
	h := lib.VerifParam("events", 3)
	lib.VerifClockAdvance(0) // intensity 10 is never reached here: concrete clock
	e := c08Setup(typ, strategy, keep, n, 10, nil, true)

	// after init: all children started in spec order, each linked to the parent
	lib.VerifAssert(len(e.p.spawns) == n, "init starts every child")
	for i, s := range e.p.spawns {
		lib.VerifAssert(s.name == vfChildNames[i], "init starts children in spec order")
		lib.VerifAssert(s.linkParent, "children are linked to the supervisor (LinkParent)")
	}
	e.view("after init")

	mgmt := lib.VerifParam("mgmt", 0) == 1 // DisableChild / EnableChild in the alphabet
	disabled := make([]bool, n)
	enables := make([]int, n) // how often EnableChild started the child again
	for step := 0; step < h && e.final == nil; step++ {
		if mgmt && len(e.p.pending) == 0 {
			switch lib.VerifPick("mgmt", 3) {
			case 1:
				j := lib.VerifPick("mgmt-child", n)
				_, l := e.livePid(j)
				spawned := e.spawnCount(j)
				err := e.b.DisableChild(vfChildNames[j])
				lib.VerifAssert(err != ErrSupervisorStrategyActive, "no restart is under way once every stop request has been honoured (DisableChild)")
				lib.VerifAssert(err == nil, "DisableChild of a known child is accepted while no restart is under way")
				if l {
					disabled[j] = true
				}
				ok := e.drain(3*n + 3)
				lib.VerifAssert(ok && e.final == nil, "disabling a child does not end the supervisor")
				_, l = e.livePid(j)
				lib.VerifAssert(!disabled[j] || (!l && e.spawnCount(j) == spawned), "a disabled child is stopped and not started again")
				e.view("after DisableChild")
				lib.VerifReach("child disabled")
			case 2:
				j := lib.VerifPick("mgmt-child", n)
				err := e.b.EnableChild(vfChildNames[j])
				lib.VerifAssert(err != ErrSupervisorStrategyActive, "no restart is under way once every stop request has been honoured (EnableChild)")
				lib.VerifAssert(err == nil, "EnableChild of a known child is accepted while no restart is under way")
				if disabled[j] {
					disabled[j] = false
					enables[j]++
					_, l := e.livePid(j)
					lib.VerifAssert(l, "enabling a disabled child starts it")
					lib.VerifReach("child enabled")
				}
				e.view("after EnableChild")
			}
		}
		// which running child dies now: one that was asked to stop, or any running one spontaneously
		before := make([]gen.PID, n)
		wasLive := make([]bool, n)
		for i := 0; i < n; i++ {
			before[i], wasLive[i] = e.livePid(i)
		}
		nspawn := len(e.p.spawns)
		nexits := len(e.p.exits)
		quiet := len(e.p.pending) == 0

		anyLive := false
		for j := 0; j < n; j++ {
			anyLive = anyLive || wasLive[j]
		}
		if !anyLive {
			break
		}
		i := lib.VerifPick("victim", n)
		pid, live := e.livePid(i)
		lib.VerifAssume(live)
		var reason error
		asked := false
		for _, x := range e.p.pending {
			if x.pid == pid {
				reason = x.reason
				asked = true
			}
		}
		if !asked {
			reason = c08Reason(lib.VerifPick("reason", 3))
		}
		abnormal := !(reason == gen.TerminateReasonNormal || reason == gen.TerminateReasonShutdown)
		e.childExits(pid, reason)
		lib.VerifReach("child exit handled")
		if e.final != nil {
			break
		}
		restartDue := strategy == SupervisorStrategyPermanent || (strategy == SupervisorStrategyTransient && abnormal)

		if typ == SupervisorTypeOneForOne {
			// only the terminated child is replaced, at once
			for j := 0; j < n; j++ {
				now, l := e.livePid(j)
				if j == i {
					lib.VerifAssert(l == restartDue, "one-for-one: the terminated child is restarted exactly when its strategy says so")
				} else {
					lib.VerifAssert(l == wasLive[j] && (!l || now == before[j]), "one-for-one: other children are left alone")
				}
			}
			lib.VerifAssert(len(e.p.exits) == nexits, "one-for-one: no sibling is stopped")
			e.view("one-for-one")
			continue
		}

		// all/rest-for-one: once every stop request has been honoured the group is back
		if quiet && restartDue {
			// stop requests issued by this restart
			lo := 0
			if typ == SupervisorTypeRestForOne {
				lo = i
			}
			if keep {
				lib.VerifAssert(len(e.p.exits)-nexits <= 1, "KeepOrder: children are stopped one at a time")
			}
			if lib.VerifParam("interleave", 1) == 1 && len(e.p.pending) > 0 && lib.VerifPick("interleave", 2) == 1 {
				// another child dies on its own while the supervisor is stopping the group
				j := lib.VerifPick("bystander", n)
				bp, bl := e.livePid(j)
				lib.VerifAssume(bl)
				for _, x := range e.p.pending {
					lib.VerifAssume(x.pid != bp)
				}
				e.childExits(bp, errVfCrash)
				lib.VerifReach("death during the stopping phase")
				ok := e.drain(3*n + 3)
				lib.VerifAssert(ok, "restart completes once the stopped children are gone")
				if e.final == nil {
					e.view("after a death during the stopping phase")
					if strategy == SupervisorStrategyPermanent {
						for j := 0; j < n; j++ {
							_, l := e.livePid(j)
							lib.VerifAssert(l || disabled[j], "permanent children are always running at quiescence")
						}
					}
				}
				continue
			}
			ok := e.drain(2*n + 2)
			lib.VerifAssert(ok, "restart completes once the stopped children are gone")
			if e.final != nil {
				break
			}
			// stop order: reverse spec order
			last := n
			for _, x := range e.p.exits[nexits:] {
				k := e.specOf(x.pid)
				if keep {
					lib.VerifAssert(k < last, "KeepOrder: children are stopped in reverse spec order")
				}
				lib.VerifAssert(k >= lo, "rest-for-one: children started before the terminated one are not stopped")
				last = k
			}
			// start order and scope
			prev := -1
			for _, s := range e.p.spawns[nspawn:] {
				k := e.specOf(s.pid)
				lib.VerifAssert(k > prev, "restart starts children in spec order")
				lib.VerifAssert(s.linkParent, "children are linked to the supervisor (LinkParent)")
				prev = k
			}
			for j := 0; j < n; j++ {
				now, l := e.livePid(j)
				if j >= lo && disabled[j] {
					lib.VerifAssert(!l, "a disabled child stays down when its group is restarted")
				} else if j >= lo {
					lib.VerifAssert(l && (!wasLive[j] || now != before[j]), "all/rest-for-one: every affected child is replaced")
				} else {
					lib.VerifAssert(l == wasLive[j] && (!l || now == before[j]), "rest-for-one: earlier children are left alone")
				}
			}
			e.view("all/rest-for-one")
			lib.VerifReach("group restart checked")
		} else if quiet && !restartDue {
			lib.VerifAssert(len(e.p.spawns) == nspawn && len(e.p.exits) == nexits, "no restart when the strategy does not ask for one")
			e.view("no restart due")
		}
	}

	if e.final == nil {
		// let everything settle, then the supervisor's view must match reality
		ok := e.drain(3*n + 3)
		lib.VerifAssert(ok, "pending stops are eventually honoured and handled")
		if e.final == nil {
			e.view("at quiescence")
			if strategy == SupervisorStrategyTemporary {
				for i := 0; i < n; i++ {
					lib.VerifAssert(e.spawnCount(i) == 1+enables[i], "temporary children are never restarted")
				}
			}
			if strategy == SupervisorStrategyPermanent {
				for i := 0; i < n; i++ {
					_, l := e.livePid(i)
					lib.VerifAssert(l || disabled[i], "permanent children are always running at quiescence")
					lib.VerifAssert(!(l && disabled[i]), "a disabled child is not running")
				}
			}
			lib.VerifReach("quiescent")
		}
	}
	// intensity 10, auto-shutdown disabled, no significant child, only its own children exit:
	// nothing in this history prescribes the supervisor's own termination
	lib.VerifAssert(e.final == nil, "supervisor keeps running (nothing prescribes its termination)")
	if e.final != nil {
		// supervisor is going down: it must take every child with it
		e.drain(3*n + 3)
		lib.VerifAssert(len(e.p.alive) == 0 || e.final == nil, "supervisor terminates only after all its children are gone")
		lib.VerifReach("supervisor terminated")
	}
}

var _ = errors.New

// VerifC08Significant: significant children and auto-shutdown end the supervisor as documented
// (strategy != Permanent, type != simple-one-for-one). Shards: type x {Transient, Temporary} x auto-shutdown.
func VerifC08Significant() {
	sh := lib.VerifShard("cfg", 12)
	typ := SupervisorType(sh % 3)
	strategy := SupervisorStrategy((sh / 3) % 2) // Transient, Temporary
	noAuto := (sh/6)%2 == 1
	n := lib.VerifParam("children", 2)
	h := lib.VerifParam("events", 2)
	sig := make([]bool, n)
	for i := range sig {
		sig[i] = lib.VerifPick("significant", 2) == 1
	}
	lib.VerifClockAdvance(0)
	e := c08Setup(typ, strategy, false, n, 10, sig, noAuto)

	for step := 0; step < h && e.final == nil; step++ {
		anyLive := false
		for j := 0; j < n; j++ {
			_, l := e.livePid(j)
			anyLive = anyLive || l
		}
		if !anyLive {
			break
		}
		nspawn := len(e.p.spawns)
		nexits := len(e.p.exits)
		i := lib.VerifPick("victim", n)
		pid, live := e.livePid(i)
		lib.VerifAssume(live)
		reason := c08Reason(lib.VerifPick("reason", 3))
		abnormal := reason == errVfCrash
		e.childExits(pid, reason)
		due := strategy == SupervisorStrategyTransient && abnormal
		if due {
			ok := e.drain(3*n + 3)
			lib.VerifAssert(ok, "restart completes")
			continue
		}
		others := 0
		for j := 0; j < n; j++ {
			if _, l := e.livePid(j); l {
				others++
			}
		}
		switch {
		case sig[i]:
			// every other child is told to stop, and once they are gone the supervisor ends with this reason
			lib.VerifAssert(len(e.p.exits)-nexits == others, "significant child gone: every other child is stopped")
			e.drain(3*n + 3)
			lib.VerifAssert(e.final != nil && e.final == reason, "significant child gone: supervisor terminates with the child's reason")
			lib.VerifAssert(len(e.p.alive) == 0, "supervisor terminates only after all its children are gone")
			lib.VerifAssert(len(e.p.spawns) == nspawn, "significant child gone: nothing is restarted")
			lib.VerifReach("significant termination checked")
		case others == 0 && !noAuto:
			lib.VerifAssert(e.final != nil && e.final == reason, "auto-shutdown: last child gone ends the supervisor with its reason")
			lib.VerifReach("auto-shutdown checked")
		default:
			lib.VerifAssert(e.final == nil, "non-significant child gone: supervisor keeps running")
			lib.VerifAssert(len(e.p.spawns) == nspawn && len(e.p.exits) == nexits, "non-significant child gone: siblings untouched")
			e.view("non-significant exit")
			lib.VerifReach("non-significant checked")
		}
	}
}

// VerifC09Supervisor: restart intensity through the real supervisor. Permanent children crash
// repeatedly with the clock advanced by a symbolic amount in between (Intensity 1, Period 5 / 66 / 4000 / 65535 s):
// at or below the limit the child is restarted, on the (Intensity+1)-th failure within the period
// every child is stopped and the supervisor ends with the 'restart intensity exceeded' reason.
func VerifC09Supervisor() {
	sh := lib.VerifShard("cfg", 3)
	typ := SupervisorType(sh % 3)
	n := lib.VerifParam("children", 2)
	k := lib.VerifParam("failures", 3)
	// the period is taken from a boundary set of the uint16 range (5 s: both sides of the window are
	// reached with the clock steps below; the larger ones: every failure lies inside the window)
	c08Period = []uint16{5, 66, 4000, 65535}[lib.VerifPick("period", 4)]
	win := int64(c08Period) * 1000
	e := c08Setup(typ, SupervisorStrategyPermanent, false, n, 1, nil, true)
	c08Period = 5
	var times []int64
	t := int64(0)
	for f := 0; f < k && e.final == nil; f++ {
		dt := lib.VerifInt64("dt")
		lib.VerifAssume(dt >= 0 && dt <= 7000)
		lib.VerifClockAdvance(dt)
		t += dt
		times = append(times, t)
		cnt := 0
		for _, u := range times {
			d := t - u
			lib.VerifAssume(d < win-50 || d > win+50)
			cnt += lib.VerifIte(d <= win, 1, 0)
		}
		i := lib.VerifPick("victim", n)
		pid, live := e.livePid(i)
		lib.VerifAssume(live)
		nspawn := len(e.p.spawns)
		e.childExits(pid, errVfCrash)
		if cnt <= 1 {
			ok := e.drain(3*n + 3)
			lib.VerifAssert(ok && e.final == nil, "within the limit: supervisor keeps restarting")
			lib.VerifAssert(len(e.p.spawns) > nspawn, "within the limit: the failed child is restarted")
			_, l := e.livePid(i)
			lib.VerifAssert(l, "within the limit: the failed child is running again")
			lib.VerifReach("restart within limit")
		} else {
			e.drain(3*n + 3)
			lib.VerifAssert(len(e.p.spawns) == nspawn, "limit exceeded: nothing is restarted")
			lib.VerifAssert(len(e.p.alive) == 0, "limit exceeded: every child is stopped")
			lib.VerifAssert(e.final != nil, "limit exceeded: supervisor terminates")
			lib.VerifAssert(e.final != nil && errors.Is(e.final, ErrSupervisorRestartsExceeded), "limit exceeded: supervisor terminates with the 'restart intensity exceeded' reason")
			lib.VerifReach("gave up")
			return
		}
	}
}

// VerifC10OwnerExit: the supervisor's owner goes away (an exit signal from its parent, a non-child) at
// any point of the supervisor's life: right after start-up, after a child's death has been handled
// completely, or while the supervisor is still in the middle of the restart that death caused (stop
// requests sent to the siblings, not yet honoured). Whatever the type, strategy and phase, the
// supervisor must then stop every child and terminate; nothing it started keeps running.
func VerifC10OwnerExit() {
	sh := lib.VerifShard("cfg", 18)
	typ := SupervisorType(sh % 3)
	strategy := SupervisorStrategy((sh / 3) % 3)
	keep := (sh/9)%2 == 1
	n := lib.VerifParam("children", 2)
	lib.VerifClockAdvance(0)
	e := c08Setup(typ, strategy, keep, n, 10, nil, true)
	lib.VerifAssert(len(e.p.spawns) == n, "init starts every child")
	if lib.VerifPick("prelude", 2) == 1 {
		i := lib.VerifPick("victim", n)
		pid, live := e.livePid(i)
		lib.VerifAssume(live)
		e.childExits(pid, c08Reason(lib.VerifPick("reason", 3)))
		lib.VerifAssert(e.final == nil, "one child death does not end the supervisor")
		if e.final != nil {
			return
		}
		if lib.VerifPick("settle", 2) == 1 {
			lib.VerifAssert(e.drain(3*n+3), "restart completes once the stopped children are gone")
		} else if len(e.p.pending) > 0 {
			lib.VerifReach("owner exit during an ongoing restart")
		}
	}
	reason := gen.TerminateReasonShutdown
	if lib.VerifPick("owner-reason", 2) == 1 {
		reason = gen.TerminateReasonKill
	}
	e.p.deliverExit(e.p.Parent(), reason)
	e.final = e.b.ProcessRun()
	ok := e.drain(4*n + 4)
	lib.VerifAssert(ok, "children asked to stop are eventually gone and handled")
	lib.VerifAssert(e.final != nil, "a supervisor whose owner went away terminates")
	lib.VerifAssert(len(e.p.alive) == 0, "nothing the supervisor started keeps running once its owner is gone")
	lib.VerifReach("owner exit handled")
}
