//go:build verif

package act

import (
	"ergo.services/ergo/gen"
	"ergo.services/ergo/lib"
)

type vfActorBehavior struct {
	Actor
	order    []int // payloads in handling order
	result   error // returned by HandleMessage for payload == failAt
	failAt   int
	inHandle int
	termArg  error
	terms    int
	onHandle func(n int) // called inside every handler with the number of messages handled before it
}

func (b *vfActorBehavior) arrive() {
	if b.onHandle != nil {
		b.onHandle(len(b.order))
	}
}

func (b *vfActorBehavior) Init(args ...any) error { return nil }
func (b *vfActorBehavior) HandleMessage(from gen.PID, message any) error {
	b.arrive()
	switch m := message.(type) {
	case int:
		b.order = append(b.order, m)
		if m == b.failAt {
			return b.result
		}
	case gen.MessageExitPID:
		b.order = append(b.order, 900)
	case gen.MessageExitProcessID:
		b.order = append(b.order, 901)
	case gen.MessageExitAlias:
		b.order = append(b.order, 902)
	case gen.MessageExitEvent:
		b.order = append(b.order, 903)
	case gen.MessageExitNode:
		b.order = append(b.order, 904)
	}
	return nil
}
func (b *vfActorBehavior) HandleCall(from gen.PID, ref gen.Ref, request any) (any, error) {
	b.arrive()
	if m, ok := request.(int); ok {
		b.order = append(b.order, m)
	}
	return nil, nil
}
func (b *vfActorBehavior) HandleLog(message gen.MessageLog) error {
	b.arrive()
	b.order = append(b.order, 800)
	return nil
}
func (b *vfActorBehavior) Terminate(reason error) { b.terms++; b.termArg = reason }

func newVfActor() (*vfActorBehavior, *vfProcess) {
	b := &vfActorBehavior{failAt: -1}
	p := newVfProcess(b)
	b.Process = p
	b.behavior = b
	b.mailbox = p.mailbox
	return b, p
}

// VerifC03ActorOrder: M messages sit in the four real queues under a symbolic class assignment;
// the real Actor.ProcessRun must handle them highest class first and FIFO within a class.
func VerifC03ActorOrder() {
	m := lib.VerifParam("messages", 3)
	b, p := newVfActor()
	class := make([]int, m)
	for i := 0; i < m; i++ {
		class[i] = lib.VerifPick("class", 4) // 0 urgent, 1 system, 2 main, 3 log
		if class[i] == 3 {
			p.mailbox.Log.Push(gen.MessageLog{})
			continue
		}
		msg := gen.TakeMailboxMessage()
		msg.Type = gen.MailboxMessageTypeRegular
		if lib.VerifPick("kind", 2) == 1 {
			msg.Type = gen.MailboxMessageTypeRequest
		}
		msg.Message = i
		switch class[i] {
		case 0:
			p.mailbox.Urgent.Push(msg)
		case 1:
			p.mailbox.System.Push(msg)
		default:
			p.mailbox.Main.Push(msg)
		}
	}
	err := b.ProcessRun()
	lib.VerifAssert(err == nil, "actor keeps running")
	lib.VerifAssert(len(b.order) == m, "every queued message is handled exactly once")
	// expected: stable sort by class
	k := 0
	for c := 0; c < 4; c++ {
		for i := 0; i < m; i++ {
			if class[i] != c {
				continue
			}
			want := i
			if c == 3 {
				want = 800
			}
			lib.VerifAssert(k < len(b.order) && b.order[k] == want, "highest non-empty class first, FIFO within a class")
			k++
		}
	}
	lib.VerifReach("order compared")
}

// c03Push puts message id into the real queue of the given class (0 urgent, 1 system, 2 main, 3 log).
func c03Push(p *vfProcess, class int, id int) {
	if class == 3 {
		p.mailbox.Log.Push(gen.MessageLog{})
		return
	}
	msg := gen.TakeMailboxMessage()
	msg.Type = gen.MailboxMessageTypeRegular
	msg.Message = id
	switch class {
	case 0:
		p.mailbox.Urgent.Push(msg)
	case 1:
		p.mailbox.System.Push(msg)
	default:
		p.mailbox.Main.Push(msg)
	}
}

// VerifC03ActorArrivals: the receiver is busy while messages arrive. M messages are queued under a
// symbolic class assignment, and A more arrive each *during* the handling of a symbolically chosen
// message (inside the handler, i.e. after the run loop popped it and before it picks the next one), in
// a symbolic class. At every pick the real Actor.ProcessRun must take the oldest message of the highest
// non-empty class as the queues stand at that moment - compared step by step with four model FIFOs.
func VerifC03ActorArrivals() {
	b, p := newVfActor()
	c03Arrivals(p, b.ProcessRun, func(f func(int)) { b.onHandle = f }, func() []int { return b.order }, true, 4)
}

// VerifC03PoolArrivals: the same for the run loop of act.Pool: urgent and system messages go to the
// pool's own HandleMessage, main-queue messages are forwarded to a worker (one worker with room) - the
// sequence of handler calls and forwards is compared with the model. A pool cannot be a logger, so
// there is no log class.
func VerifC03PoolArrivals() {
	b := &vfPoolBehavior{}
	p := newVfProcess(b)
	b.Process = p
	b.behavior = b
	b.mailbox = p.mailbox
	b.options = PoolOptions{PoolSize: 1, WorkerMailboxSize: 100, WorkerFactory: factoryNil}
	b.pool = lib.NewQueueLimitMPSC(100, false)
	pid, _ := p.Spawn(factoryNil, gen.ProcessOptions{LinkParent: true})
	b.pool.Push(pid)
	p.fwdResult = func(to gen.PID) error {
		if b.onHandle != nil {
			b.onHandle(len(b.order))
		}
		b.order = append(b.order, -(len(p.forwards) + 1))
		return nil
	}
	got := func() []int {
		out := make([]int, len(b.order))
		for i, v := range b.order {
			out[i] = v
			if v < 0 && -v-1 < len(p.forwards) {
				if m, ok := p.forwards[-v-1].msg.Message.(int); ok {
					out[i] = m
				}
			}
		}
		return out
	}
	c03Arrivals(p, b.ProcessRun, func(f func(int)) { b.onHandle = f }, got, false, 3)
}

// VerifC03SupervisorArrivals: the same for the run loop of act.Supervisor (its own copy of the dequeue
// loop): regular messages for the supervisor's HandleMessage in the urgent/system/main queues; log
// messages are taken last and dropped without a callback.
func VerifC03SupervisorArrivals() {
	lib.VerifClockAdvance(0)
	e := c08Setup(SupervisorTypeOneForOne, SupervisorStrategyPermanent, false, 1, 10, nil, true)
	c03Arrivals(e.p, e.b.ProcessRun, func(f func(int)) { e.b.onHandle = f }, func() []int { return e.b.order }, false, 4)
}

// c03Arrivals is the body shared by the run loops: logHandled says whether a log message reaches a
// handler (Actor.HandleLog) or is popped and dropped (Supervisor).
func c03Arrivals(p *vfProcess, run func() error, hook func(func(int)), got func() []int, logHandled bool, classes int) {
	m := lib.VerifParam("messages", 2)
	a := lib.VerifParam("arrivals", 1)
	var model [4][]int
	for i := 0; i < m; i++ {
		c := lib.VerifPick("class", classes)
		c03Push(p, c, i)
		id := i
		if c == 3 {
			id = 800
		}
		model[c] = append(model[c], id)
	}
	at := make([]int, a)
	cl := make([]int, a)
	for k := 0; k < a; k++ {
		at[k] = lib.VerifPick("during", m+a)
		cl[k] = lib.VerifPick("aclass", classes)
	}
	hook(func(n int) {
		for k := 0; k < a; k++ {
			if at[k] == n {
				c03Push(p, cl[k], 100+k)
			}
		}
	})
	err := run()
	lib.VerifAssert(err == nil, "the process keeps running")
	// model run
	var want []int
	for {
		c := 0
		for c < 4 && len(model[c]) == 0 {
			c++
		}
		if c == 4 {
			break
		}
		if c == 3 && !logHandled {
			// popped and dropped: no handler runs, nothing can arrive "during" it
			model[c] = model[c][1:]
			continue
		}
		n := len(want)
		want = append(want, model[c][0])
		model[c] = model[c][1:]
		for k := 0; k < a; k++ {
			if at[k] == n {
				id := 100 + k
				if cl[k] == 3 {
					id = 800
				}
				model[cl[k]] = append(model[cl[k]], id)
			}
		}
	}
	order := got()
	lib.VerifAssert(len(order) == len(want), "every message queued before or during the run is handled exactly once")
	for i := range want {
		lib.VerifAssert(i < len(order) && order[i] == want[i], "each pick takes the oldest message of the highest non-empty class at that moment")
	}
	lib.VerifReach("order with arrivals compared")
}

// VerifC05ActorExit: one exit signal of each kind reaches the real Actor.ProcessRun with symbolic
// trap flag and symbolic sender (parent or not): it terminates with the signal's reason or, when
// trapping and the signal is not from the parent, hands it to the handler as an ordinary message.
func VerifC05ActorExit() {
	b, p := newVfActor()
	b.trap = lib.VerifBool("trap")
	fromParent := lib.VerifBool("fromParent")
	kind := lib.VerifPick("kind", 5)
	reason := c08Reason(lib.VerifPick("reason", 3))
	from := gen.PID{Node: "n@h", ID: 555, Creation: 1}
	if fromParent {
		from = p.Parent()
	}
	msg := gen.TakeMailboxMessage()
	msg.Type = gen.MailboxMessageTypeExit
	msg.From = from
	switch kind {
	case 0:
		msg.Message = gen.MessageExitPID{PID: from, Reason: reason}
	case 1:
		msg.Message = gen.MessageExitProcessID{ProcessID: gen.ProcessID{Name: "x", Node: "n@h"}, Reason: reason}
	case 2:
		msg.Message = gen.MessageExitAlias{Alias: gen.Alias{Node: "n@h", ID: [3]uint64{1, 2, 3}}, Reason: reason}
	case 3:
		msg.Message = gen.MessageExitEvent{Event: gen.Event{Name: "e", Node: "n@h"}, Reason: reason}
	case 4:
		msg.Message = gen.MessageExitNode{Name: "other@h"}
	}
	p.mailbox.Urgent.Push(msg)
	// a regular message queued behind it must only be seen if the process keeps running
	next := gen.TakeMailboxMessage()
	next.Type = gen.MailboxMessageTypeRegular
	next.Message = 1
	p.mailbox.Main.Push(next)

	err := b.ProcessRun()
	// the parent's exit can only be a MessageExitPID naming the parent
	trapped := b.trap && !(kind == 0 && fromParent)
	if trapped {
		lib.VerifAssert(err == nil, "a trapped exit signal does not terminate the process")
		lib.VerifAssert(len(b.order) == 2 && b.order[0] == 900+kind && b.order[1] == 1, "a trapped exit signal is handled as an ordinary message, then the next one")
		lib.VerifReach("trapped")
	} else {
		lib.VerifAssert(err != nil, "an untrapped exit signal (or one from the parent) terminates the process")
		if kind == 4 {
			lib.VerifAssert(err != nil && errorsIs(err, gen.ErrNoConnection), "node-down exit carries the no-connection reason")
		} else {
			lib.VerifAssert(err != nil && errorsIs(err, reason), "termination reason is the signal's reason")
		}
		lib.VerifAssert(len(b.order) == 0, "nothing is handled after the terminating signal")
		lib.VerifReach("terminated")
	}
}

// VerifC05ActorReason: the error a handler returns is the termination reason, and the messages
// behind it are not handled.
func VerifC05ActorReason() {
	b, p := newVfActor()
	m := lib.VerifParam("messages", 3)
	b.failAt = lib.VerifPick("failAt", m)
	b.result = c08Reason(lib.VerifPick("reason", 3))
	for i := 0; i < m; i++ {
		msg := gen.TakeMailboxMessage()
		msg.Type = gen.MailboxMessageTypeRegular
		msg.Message = i
		p.mailbox.Main.Push(msg)
	}
	err := b.ProcessRun()
	lib.VerifAssert(err == b.result, "the handler's error is the termination reason")
	lib.VerifAssert(len(b.order) == b.failAt+1, "no handler runs after the one that ended the process")
	// a killed process must not handle anything
	p.state = gen.ProcessStateTerminated
	n := len(b.order)
	err = b.ProcessRun()
	lib.VerifAssert(err == gen.TerminateReasonKill && len(b.order) == n, "a process that is no longer running handles nothing more")
}
