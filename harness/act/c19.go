//go:build verif

package act

import (
	"ergo.services/ergo/gen"
	"ergo.services/ergo/lib"
)

type vfPoolBehavior struct {
	Pool
	handled  int
	order    []int       // C03: payloads in handling order (forwards as -(index+1) until resolved)
	onHandle func(n int) // C03: called inside every handler / forward with the number handled before
}

func (b *vfPoolBehavior) Init(args ...any) (PoolOptions, error) { return PoolOptions{}, nil }
func (b *vfPoolBehavior) HandleMessage(from gen.PID, message any) error {
	b.handled++
	if b.onHandle != nil {
		b.onHandle(len(b.order))
	}
	if m, ok := message.(int); ok {
		b.order = append(b.order, m)
	}
	return nil
}
func (b *vfPoolBehavior) HandleCall(from gen.PID, ref gen.Ref, request any) (any, error) {
	b.handled++
	return nil, nil
}

// VerifC19Forward: real Pool.ProcessRun/forward on a fake process whose Forward reports, per attempt,
// a symbolic outcome (delivered / unknown / terminated / mailbox full); dead workers stay dead.
func VerifC19Forward() {
	size := lib.VerifParam("pool", 2)
	msgs := lib.VerifParam("messages", 2)
	b := &vfPoolBehavior{}
	p := newVfProcess(b)
	b.Process = p
	b.behavior = b
	b.mailbox = p.mailbox
	b.options = PoolOptions{PoolSize: int64(size), WorkerMailboxSize: 1, WorkerFactory: factoryNil}
	b.pool = lib.NewQueueLimitMPSC(int64(size)*100, false)
	for i := 0; i < size; i++ {
		pid, _ := p.Spawn(factoryNil, gen.ProcessOptions{LinkParent: true})
		b.pool.Push(pid)
	}
	dead := map[gen.PID]bool{}
	p.fwdResult = func(to gen.PID) error {
		if dead[to] {
			return gen.ErrProcessTerminated
		}
		if to.ID > 1000+uint64(size) {
			return nil // a fresh replacement has room and is alive
		}
		switch lib.VerifPick("outcome", 4) {
		case 1:
			dead[to] = true
			return gen.ErrProcessUnknown
		case 2:
			dead[to] = true
			return gen.ErrProcessTerminated
		case 3:
			return gen.ErrProcessMailboxFull
		}
		return nil
	}

	for m := 0; m < msgs; m++ {
		msg := gen.TakeMailboxMessage()
		msg.From = gen.PID{Node: "n@h", ID: 7000 + uint64(m), Creation: 1}
		msg.Ref = gen.Ref{Node: "n@h", Creation: 1, ID: [3]uint64{uint64(m) + 1, 2, 3}}
		kind := lib.VerifPick("kind", 3) // regular, request, event
		msg.Type = gen.MailboxMessageType(kind)
		msg.Message = m
		nfw := len(p.forwards)
		nsp := len(p.spawns)
		unhandled := b.unhandled
		p.mailbox.Main.Push(msg)
		err := b.ProcessRun()
		lib.VerifAssert(err == nil, "pool keeps running")
		lib.VerifAssert(b.handled == 0, "main-queue messages are dispatched, not handled by the pool itself")

		delivered := 0
		full := 0
		for _, f := range p.forwards[nfw:] {
			lib.VerifAssert(f.msg == msg, "the very message object is handed over")
			lib.VerifAssert(f.priority == gen.MessagePriorityNormal, "forwarded with normal priority")
			lib.VerifAssert(delivered == 0, "no further hand-over after a successful one")
			if f.err == nil {
				delivered++
			}
			if f.err == gen.ErrProcessMailboxFull {
				full++
			}
		}
		lib.VerifAssert(msg.From.ID == 7000+uint64(m) && msg.Ref.ID[0] == uint64(m)+1 && msg.Message == m, "sender, reference and payload are untouched")
		for _, s := range p.spawns[nsp:] {
			lib.VerifAssert(s.linkParent, "replacement workers are linked to the pool (LinkParent)")
		}
		lib.VerifAssert(b.pool.Len() == int64(size), "the ring keeps its configured size")
		if delivered == 0 {
			lib.VerifAssert(full == size, "a message is dropped only when every worker is full")
			lib.VerifAssert(b.unhandled == unhandled+1, "a dropped message is counted")
			lib.VerifReach("dropped: all full")
		} else {
			lib.VerifAssert(delivered == 1, "handed to exactly one worker")
			lib.VerifAssert(b.unhandled == unhandled, "a delivered message is not counted as dropped")
			lib.VerifReach("delivered")
		}
		// every worker in the ring is one the pool believes alive
		for it := b.pool.Item(); it != nil; it = it.Next() {
			lib.VerifAssert(!dead[it.Value().(gen.PID)], "dead workers are not kept in the ring")
		}
	}

	// Urgent/System traffic and exit/inspect messages are handled by the pool itself
	q := lib.VerifPick("queue", 2)
	msg := gen.TakeMailboxMessage()
	msg.Type = gen.MailboxMessageTypeRegular
	msg.Message = "x"
	nfw := len(p.forwards)
	if q == 0 {
		p.mailbox.Urgent.Push(msg)
	} else {
		p.mailbox.System.Push(msg)
	}
	b.ProcessRun()
	lib.VerifAssert(len(p.forwards) == nfw && b.handled == 1, "urgent and system messages are handled by the pool process itself")
}
