//go:build verif

package node

import (
	"ergo.services/ergo/gen"
	"ergo.services/ergo/lib"
)

// vfConn is a fake gen.Connection: remote link/monitor requests succeed, sends are recorded.
type vfConn struct {
	gen.Connection
	peer       gen.Atom
	terminates int
}

func (c *vfConn) Node() gen.RemoteNode                                  { return nil }
func (c *vfConn) LinkPID(pid gen.PID, target gen.PID) error             { return nil }
func (c *vfConn) UnlinkPID(pid gen.PID, target gen.PID) error           { return nil }
func (c *vfConn) LinkProcessID(pid gen.PID, target gen.ProcessID) error { return nil }
func (c *vfConn) LinkAlias(pid gen.PID, target gen.Alias) error         { return nil }
func (c *vfConn) LinkEvent(pid gen.PID, target gen.Event) ([]gen.MessageEvent, error) {
	return nil, nil
}
func (c *vfConn) MonitorPID(pid gen.PID, target gen.PID) error             { return nil }
func (c *vfConn) MonitorProcessID(pid gen.PID, target gen.ProcessID) error { return nil }
func (c *vfConn) MonitorAlias(pid gen.PID, target gen.Alias) error         { return nil }
func (c *vfConn) MonitorEvent(pid gen.PID, target gen.Event) ([]gen.MessageEvent, error) {
	return nil, nil
}
func (c *vfConn) SendTerminatePID(target gen.PID, reason error) error { c.terminates++; return nil }

func c14Target(kind int, node gen.Atom) any {
	switch kind {
	case 0:
		return gen.PID{Node: node, ID: 5000, Creation: 7}
	case 1:
		return gen.ProcessID{Name: "svc", Node: node}
	case 2:
		return gen.Alias{Node: node, Creation: 7, ID: [3]uint64{1, 2, 3}}
	case 3:
		return gen.Event{Name: "ev", Node: node}
	}
	return node
}

// c14Kind classifies an exit/down payload: target kind and the node it names.
func c14Kind(m any) (kind int, node gen.Atom, reason error, isExit bool) {
	switch x := m.(type) {
	case gen.MessageExitPID:
		return 0, x.PID.Node, x.Reason, true
	case gen.MessageExitProcessID:
		return 1, x.ProcessID.Node, x.Reason, true
	case gen.MessageExitAlias:
		return 2, x.Alias.Node, x.Reason, true
	case gen.MessageExitEvent:
		return 3, x.Event.Node, x.Reason, true
	case gen.MessageExitNode:
		return 4, x.Name, gen.ErrNoConnection, true
	case gen.MessageDownPID:
		return 0, x.PID.Node, x.Reason, false
	case gen.MessageDownProcessID:
		return 1, x.ProcessID.Node, x.Reason, false
	case gen.MessageDownAlias:
		return 2, x.Alias.Node, x.Reason, false
	case gen.MessageDownEvent:
		return 3, x.Event.Node, x.Reason, false
	case gen.MessageDownNode:
		return 4, x.Name, gen.ErrNoConnection, false
	}
	return -1, "", nil, false
}

// VerifC14NodeDown: two local consumers build a symbolic set of links/monitors on targets of the
// five kinds living on nodes x and y (through the real process API and fake connections); remote
// processes on x also hold relations on a local target. Then node x goes down (real RouteNodeDown
// with the real CleanupNode).
func VerifC14NodeDown() {
	k := lib.VerifParam("relations", 3)
	sh := lib.VerifShard("kinds", 5)
	lib.VerifClockAdvance(0)
	n := vfNode()
	nodes := []gen.Atom{"x@h", "y@h"}
	for _, nn := range nodes {
		n.network.connections.Store(nn, &vfConn{peer: nn})
	}
	cons := [2]*process{}
	cons[0], _ = vfProc(n, 2001, "", gen.ProcessStateRunning, 0)
	cons[1], _ = vfProc(n, 2002, "", gen.ProcessStateRunning, 0)
	local, _ := vfProc(n, 2003, "", gen.ProcessStateRunning, 0)
	var link, mon [2][5][2]bool // consumer, kind, node
	remoteHolds := false
	for i := 0; i < k; i++ {
		if lib.VerifPick("who", 2) == 1 {
			// a process on x links a local process (request arrived over the network)
			err := n.RouteLinkPID(gen.PID{Node: "x@h", ID: 9000, Creation: 7}, local.pid)
			if err == nil {
				remoteHolds = true
			}
			continue
		}
		c := lib.VerifPick("consumer", 2)
		kind := (sh + lib.VerifPick("kind", 2)) % 5
		nd := lib.VerifPick("node", 2)
		asLink := lib.VerifPick("link", 2) == 1
		t := c14Target(kind, nodes[nd])
		var err error
		switch {
		case kind == 3 && asLink:
			_, err = cons[c].LinkEvent(t.(gen.Event))
		case kind == 3:
			_, err = cons[c].MonitorEvent(t.(gen.Event))
		case kind == 4 && asLink:
			err = cons[c].LinkNode(nodes[nd])
		case kind == 4:
			err = cons[c].MonitorNode(nodes[nd])
		case asLink:
			err = cons[c].Link(t)
		default:
			err = cons[c].Monitor(t)
		}
		if err == nil {
			if asLink {
				link[c][kind][nd] = true
			} else {
				mon[c][kind][nd] = true
			}
		}
	}
	n.RouteNodeDown("x@h", gen.ErrNoConnection)
	lib.VerifReach("node down")
	check := func(second bool) {
		for c := 0; c < 2; c++ {
			var exits, downs [5]int
			for _, m := range vfDrain(cons[c].mailbox.Urgent) {
				kind, nd, r, isExit := c14Kind(m.Message)
				lib.VerifAssert(kind >= 0 && isExit && m.Type == gen.MailboxMessageTypeExit, "urgent queue holds exit signals only")
				lib.VerifAssert(nd == "x@h", "notifications name targets on the node that went down only")
				lib.VerifAssert(r == gen.ErrNoConnection, "node-down notifications carry the no-connection reason")
				if kind >= 0 {
					exits[kind]++
				}
			}
			for _, m := range vfDrain(cons[c].mailbox.System) {
				kind, nd, r, isExit := c14Kind(m.Message)
				lib.VerifAssert(kind >= 0 && !isExit, "system queue holds down messages only")
				lib.VerifAssert(nd == "x@h", "notifications name targets on the node that went down only")
				lib.VerifAssert(r == gen.ErrNoConnection, "node-down notifications carry the no-connection reason")
				if kind >= 0 {
					downs[kind]++
				}
			}
			for kind := 0; kind < 5; kind++ {
				we, wd := 0, 0
				if !second && link[c][kind][0] {
					we = 1
				}
				if !second && mon[c][kind][0] {
					wd = 1
				}
				lib.VerifAssert(exits[kind] == we, "exactly one exit signal per link on the lost node")
				lib.VerifAssert(downs[kind] == wd, "exactly one down message per monitor on the lost node")
				// relations on the other node stay in place
				t := c14Target(kind, "y@h")
				lib.VerifAssert(n.targetManager.HasLink(cons[c].pid, t) == link[c][kind][1], "links on other nodes are untouched")
				lib.VerifAssert(n.targetManager.HasMonitor(cons[c].pid, t) == mon[c][kind][1], "monitors on other nodes are untouched")
				lib.VerifAssert(!n.targetManager.HasLink(cons[c].pid, c14Target(kind, "x@h")) && !n.targetManager.HasMonitor(cons[c].pid, c14Target(kind, "x@h")), "relations on the lost node are removed")
			}
		}
	}
	check(false)
	if remoteHolds {
		lib.VerifAssert(len(n.targetManager.GetConsumersForTarget(local.pid)) == 0, "relations held by processes of the lost node are removed")
	}
	lib.VerifAssert(local.mailbox.Urgent.Item() == nil && local.mailbox.System.Item() == nil, "a local target of a remote consumer is not notified")
	// the same node reported down again: nobody is told twice
	n.RouteNodeDown("x@h", gen.ErrNoConnection)
	check(true)
}

// vfRecConn is a fake connection that records what the node hands it.
type vfRecConn struct {
	vfConn
	downs      int // MessageDown* sent as ordinary messages to a process on the peer
	exits      int // exit signals sent to a process on the peer
	termPID    int
	termName   int
	termAlias  int
	termEvent  int
	otherSends int
}

func (c *vfRecConn) SendPID(from gen.PID, to gen.PID, options gen.MessageOptions, message any) error {
	switch message.(type) {
	case gen.MessageDownPID, gen.MessageDownProcessID, gen.MessageDownAlias, gen.MessageDownEvent:
		c.downs++
	default:
		c.otherSends++
	}
	return nil
}
func (c *vfRecConn) SendExit(from gen.PID, to gen.PID, reason error) error { c.exits++; return nil }
func (c *vfRecConn) SendTerminatePID(target gen.PID, reason error) error  { c.termPID++; return nil }
func (c *vfRecConn) SendTerminateProcessID(target gen.ProcessID, reason error) error {
	c.termName++
	return nil
}
func (c *vfRecConn) SendTerminateAlias(target gen.Alias, reason error) error { c.termAlias++; return nil }
func (c *vfRecConn) SendTerminateEvent(target gen.Event, reason error) error { c.termEvent++; return nil }

// VerifC14LocalTargetGone: processes on node x hold links and monitors (a symbolic set) on a LOCAL
// target - process, registered name, alias or event; the relations are registered the way the
// connection does it for a remote requester (core.Route{Link,Monitor}*). Then the target goes away.
// The peer must be told by exactly one termination notice for that target (which the peer fans out to
// its own requesters), and a node without relations on the target is told nothing.
func VerifC14LocalTargetGone() {
	kind := lib.VerifShard("kind", 4)
	lib.VerifClockAdvance(0)
	w := c04Setup()
	n := w.n
	cx, cy := &vfRecConn{}, &vfRecConn{}
	cx.peer, cy.peer = "x@h", "y@h"
	n.network.connections.Store(gen.Atom("x@h"), cx)
	n.network.connections.Store(gen.Atom("y@h"), cy)
	r1 := gen.PID{Node: "x@h", ID: 7001, Creation: 3}
	r2 := gen.PID{Node: "x@h", ID: 7002, Creation: 3}
	linked := lib.VerifPick("r1-links", 2) == 1
	monitored := lib.VerifPick("r2-monitors", 2) == 1
	also := lib.VerifPick("r1-monitors-too", 2) == 1
	var err error
	if linked {
		switch kind {
		case 0:
			err = n.RouteLinkPID(r1, w.t.pid)
		case 1:
			err = n.RouteLinkProcessID(r1, gen.ProcessID{Name: w.name, Node: n.name})
		case 2:
			err = n.RouteLinkAlias(r1, w.alias)
		case 3:
			_, err = n.RouteLinkEvent(r1, w.event)
		}
		lib.VerifAssert(err == nil, "remote link registered")
	}
	for i, who := range []gen.PID{r2, r1} {
		if (i == 0 && !monitored) || (i == 1 && !also) {
			continue
		}
		switch kind {
		case 0:
			err = n.RouteMonitorPID(who, w.t.pid)
		case 1:
			err = n.RouteMonitorProcessID(who, gen.ProcessID{Name: w.name, Node: n.name})
		case 2:
			err = n.RouteMonitorAlias(who, w.alias)
		case 3:
			_, err = n.RouteMonitorEvent(who, w.event)
		}
		lib.VerifAssert(err == nil, "remote monitor registered")
	}
	any := linked || monitored || also
	// the target goes away
	w.t.state = int32(gen.ProcessStateTerminated)
	n.unregisterProcess(w.t, errVfReason)
	lib.VerifYield()
	notices := []int{cx.termPID, cx.termName, cx.termAlias, cx.termEvent}[kind]
	if any {
		lib.VerifAssert(notices == 1, "the peer holding relations on the target gets exactly one termination notice for it")
	} else {
		lib.VerifAssert(notices == 0, "a peer without relations on the target gets no termination notice for it")
	}
	// (The node also hands the connection a direct copy of each down message for a remote monitor;
	// the real connection cannot encode those gen.MessageDown* values and drops them, so the requester
	// sees one notification - confirmed with two real nodes. That is not asserted either way here.)
	lib.VerifAssert(cy.downs+cy.exits+cy.termPID+cy.termName+cy.termAlias+cy.termEvent == 0, "a node without relations on the target is told nothing")
	lib.VerifReach("local target gone")
}
