//go:build verif

package node

import (
	"ergo.services/ergo/gen"
	"ergo.services/ergo/lib"
)

// VerifC10SpawnLink: a child started with LinkParent (what supervisors, pools and applications'
// supervision trees use) holds a link on its parent before it can run, and when the parent
// terminates - for whatever reason - exactly one exit signal from the parent is put into the
// child's urgent queue (which the standard behaviours cannot trap, see C05). With well-behaved
// children the whole group is gone once the signals are handled.
func VerifC10SpawnLink() {
	lib.VerifClockAdvance(0)
	n := vfNode()
	parent, _ := vfProc(n, 2000, "", gen.ProcessStateRunning, 0)
	nchild := lib.VerifParam("children", 2)
	var kids []*vfMember
	var pids []gen.PID
	for i := 0; i < nchild; i++ {
		m := &vfMember{}
		pid, err := parent.Spawn(func() gen.ProcessBehavior { return m }, gen.ProcessOptions{LinkParent: true})
		lib.VerifAssert(err == nil, "child spawned")
		lib.VerifAssert(n.targetManager.HasLink(pid, parent.pid), "a LinkParent child is linked to its parent as soon as spawn returns")
		kids = append(kids, m)
		pids = append(pids, pid)
	}
	idle := lib.VerifPick("idle", 2) == 1
	if idle {
		lib.VerifYield() // children have finished their start-up and sleep
	}
	reason := c17Reason(lib.VerifPick("reason", 3))
	how := lib.VerifPick("how", 2)
	if how == 0 {
		// the parent's handler returned `reason`
		parent.state = int32(gen.ProcessStateTerminated)
		n.unregisterProcess(parent, reason)
	} else {
		reason = gen.TerminateReasonKill
		parent.state = int32(gen.ProcessStateSleep)
		lib.VerifAssert(n.Kill(parent.pid) == nil, "parent killed")
	}
	lib.VerifYield()
	for i, pid := range pids {
		_, alive := n.processes.Load(pid)
		lib.VerifAssert(!alive, "no child outlives its parent")
		lib.VerifAssert(kids[i].terms == 1, "each child terminates exactly once")
	}
	cnt := 0
	n.processes.Range(func(_, _ any) bool { cnt++; return true })
	lib.VerifAssert(cnt == 0, "nothing the parent started keeps running")
	lib.VerifReach("group gone")
}

// VerifC10NodeStop: graceful node stop with an application (two members), a free-standing process
// and a process with a LinkParent child, all well-behaved: the real node.stop returns only after
// every process has terminated.
func VerifC10NodeStop() {
	lib.VerifClockAdvance(0)
	n := vfNode()
	fa := &vfApp{}
	app := &application{node: n, behavior: fa, state: int32(gen.ApplicationStateLoaded)}
	app.spec.Name = "app"
	var all []*vfMember
	mk := func() gen.ProcessBehavior {
		m := &vfMember{}
		all = append(all, m)
		return m
	}
	app.spec.Group = []gen.ApplicationMemberSpec{{Name: "m0", Factory: mk}, {Name: "m1", Factory: mk}}
	n.applications.Store(app.spec.Name, app)
	mode := gen.ApplicationMode(lib.VerifPick("mode", 3) + 1)
	lib.VerifAssert(app.start(mode, gen.ApplicationOptionsExtra{CorePID: n.corePID}) == nil, "application started")
	free, err := n.spawn(mk, gen.ProcessOptionsExtra{ParentPID: n.corePID, ParentLeader: n.corePID})
	lib.VerifAssert(err == nil, "free process spawned")
	v, _ := n.processes.Load(free)
	fp := v.(*process)
	fp.state = int32(gen.ProcessStateRunning)
	_, err = fp.Spawn(mk, gen.ProcessOptions{LinkParent: true})
	fp.state = int32(gen.ProcessStateSleep)
	lib.VerifAssert(err == nil, "child spawned")
	if lib.VerifPick("idle", 2) == 1 {
		lib.VerifYield()
	}
	n.stop(false)
	cnt := 0
	n.processes.Range(func(_, _ any) bool { cnt++; return true })
	lib.VerifAssert(cnt == 0, "a graceful node stop returns only after every process has terminated")
	for _, m := range all {
		lib.VerifAssert(m.terms == 1, "every process terminates exactly once")
	}
	lib.VerifAssert(fa.terms == 1 && app.state == int32(gen.ApplicationStateLoaded), "the application is stopped exactly once")
	lib.VerifReach("node stopped")
}

// vfOwner is an owner (what a pool is to its workers) whose ProcessInit starts `want` LinkParent
// children with the real process.Spawn and then, optionally, fails.
type vfOwner struct {
	want  int
	fail  error
	kids  []*vfMember
	pids  []gen.PID
	terms int
}

func (o *vfOwner) ProcessInit(process gen.Process, args ...any) error {
	for i := 0; i < o.want; i++ {
		m := &vfMember{}
		pid, err := process.Spawn(func() gen.ProcessBehavior { return m }, gen.ProcessOptions{LinkParent: true})
		if err != nil {
			return err
		}
		o.kids = append(o.kids, m)
		o.pids = append(o.pids, pid)
	}
	return o.fail
}
func (o *vfOwner) ProcessRun() error             { return nil }
func (o *vfOwner) ProcessTerminate(reason error) { o.terms++ }

// VerifC10InitFailure: an owner starts 0..N LinkParent children during its own start-up (as act.Pool
// does with its workers) and then fails to start. The owner never existed for the rest of the node,
// so nothing it started may keep running: every child gets the owner's exit and (being well-behaved)
// terminates exactly once; when the owner starts successfully the children stay.
func VerifC10InitFailure() {
	lib.VerifClockAdvance(0)
	n := vfNode()
	o := &vfOwner{want: lib.VerifPick("children", lib.VerifParam("children", 2)+1)}
	fails := lib.VerifPick("fails", 2) == 1
	if fails {
		o.fail = errVfReason
	}
	_, err := n.spawn(func() gen.ProcessBehavior { return o }, gen.ProcessOptionsExtra{ParentPID: n.corePID, ParentLeader: n.corePID})
	lib.VerifAssert((err != nil) == fails, "spawn reports the owner's start-up failure")
	if lib.VerifPick("idle", 2) == 1 {
		lib.VerifYield()
	}
	lib.VerifYield()
	cnt := 0
	n.processes.Range(func(_, _ any) bool { cnt++; return true })
	if fails {
		for i, pid := range o.pids {
			_, alive := n.processes.Load(pid)
			lib.VerifAssert(!alive, "a child started during the failed start-up of its owner does not keep running")
			lib.VerifAssert(o.kids[i].terms == 1, "each such child terminates exactly once")
		}
		lib.VerifAssert(cnt == 0, "nothing the failed owner started keeps running")
		lib.VerifReach("failed start-up cleaned up")
	} else {
		lib.VerifAssert(cnt == 1+o.want, "a successful start-up keeps the owner and its children")
		for _, m := range o.kids {
			lib.VerifAssert(m.terms == 0, "children of a running owner are not terminated")
		}
		lib.VerifReach("owner and children running")
	}
}
