//go:build verif

package node

import (
	"ergo.services/ergo/gen"
	"ergo.services/ergo/lib"
)

type c07Reply struct {
	For int // which request the replier answers (1, 2) or 0 for a reference of nobody's request
	Err bool
}

// c07Refs reads the references of the requests queued at the callee (oldest first).
func c07Refs(callee *process) []gen.Ref {
	var out []gen.Ref
	for it := callee.mailbox.Main.Item(); it != nil; it = it.Next() {
		m := it.Value().(*gen.MailboxMessage)
		if m.Type == gen.MailboxMessageTypeRequest {
			out = append(out, m.Ref)
		}
	}
	return out
}

// VerifC07Calls: two consecutive synchronous requests of one process (real CallPID: MakeRef,
// RouteCallPID, waitResponse with its timer) while repliers deliver, at any time, replies and error
// replies carrying the reference of the first request, of the second request, or of nobody's
// request, each at most once per kind (real RouteSendResponse / RouteSendResponseError). A call
// returns the value or error produced for that very request, or a timeout - never another
// request's reply - and a late reply to a timed-out request is dropped.
func VerifC07Calls() {
	lib.VerifClockAdvance(0)
	maxReplies := lib.VerifParam("replies", 2)
	n := vfNode()
	caller, _ := vfProc(n, 2000, "", gen.ProcessStateRunning, 0)
	callee, _ := vfProc(n, 2001, "", gen.ProcessStateRunning, 0) // busy: the requests stay queued
	replier := gen.PID{Node: n.name, ID: 2001, Creation: 1}
	answered := [3]bool{}
	errAnswered := [3]bool{}
	foreignSent := false
	// the environment acts whenever the caller is blocked waiting
	env := func(name string) {
		lib.VerifGo(name, func() {
			for i := 0; i < maxReplies; i++ {
				refs := c07Refs(callee)
				k := lib.VerifPick("deliver", 4) // 0 stop, 1 reply to request 1, 2 reply to request 2, 3 foreign reference
				if k == 0 {
					return
				}
				var ref gen.Ref
				switch k {
				case 1, 2:
					if len(refs) < k {
						continue // that request has not been made yet
					}
					ref = refs[k-1]
				case 3:
					if foreignSent {
						continue
					}
					foreignSent = true
					ref = gen.Ref{Node: n.name, Creation: 1, ID: [3]uint64{777777, 7, 7}}
				}
				opts := gen.MessageOptions{Ref: ref}
				if k != 3 && lib.VerifPick("aserror", 2) == 1 {
					if errAnswered[k] || answered[k] {
						continue
					}
					errAnswered[k] = true
					n.RouteSendResponseError(replier, caller.pid, opts, errVfReason)
				} else {
					if k != 3 && (answered[k] || errAnswered[k]) {
						continue
					}
					if k != 3 {
						answered[k] = true
					}
					n.RouteSendResponse(replier, caller.pid, opts, 100+k)
				}
			}
		})
	}
	check := func(k int, v any, err error, before, beforeErr bool) {
		switch {
		case err == nil:
			lib.VerifAssert(v == 100+k, "a call returns the value produced for that very request")
			lib.VerifAssert(answered[k], "a value is returned only if the callee answered this request")
		case err == errVfReason:
			lib.VerifAssert(errAnswered[k], "an error result is the one produced for that very request")
		default:
			lib.VerifAssert(err == gen.ErrTimeout, "otherwise the call times out")
			lib.VerifAssert(!before && !beforeErr || true, "timeout")
		}
		if answered[k] && !errAnswered[k] {
			lib.VerifAssert(err == nil, "a reply delivered while the caller waits is returned to it")
		}
	}
	env("env1")
	v1, err1 := caller.CallPID(callee.pid, "req1", 1)
	check(1, v1, err1, false, false)
	lib.VerifAssert(caller.state == int32(gen.ProcessStateRunning), "the caller is running again after the call")
	a2, e2 := answered[2], errAnswered[2]
	env("env2")
	v2, err2 := caller.CallPID(callee.pid, "req2", 1)
	check(2, v2, err2, a2, e2)
	lib.VerifReach("two calls made")
}

// VerifC07ImportantRef: the reference under which an 'important' send waits for its acknowledgement
// is unique per send: two sends of one process made d references apart never wait under the same
// reference (otherwise a late acknowledgement of the first would complete the second).
func VerifC07ImportantRef() {
	lib.VerifClockAdvance(0)
	n := vfNode()
	p, _ := vfProc(n, 2000, "", gen.ProcessStateRunning, 0)
	p.important = true
	conn := &c07Conn{}
	n.network.connections.Store(gen.Atom("x@h"), conn)
	to := gen.PID{Node: "x@h", ID: 5000, Creation: 7}
	c0 := lib.VerifUint64("c0")
	d := lib.VerifUint64("d")
	lib.VerifAssume(d >= 1 && d < 1<<40 && c0 < 1<<40)
	n.uniqID = c0
	p.SendPID(to, "a") // waits for the acknowledgement and times out
	p.state = int32(gen.ProcessStateRunning)
	n.uniqID = c0 + d
	p.SendPID(to, "b")
	lib.VerifAssert(len(conn.refs) == 2, "both sends reached the connection")
	lib.VerifReach("two important sends made")
	if lib.VerifParam("known:important-ref-collapse", 0) == 1 {
		return // the recorded finding is exactly the assertion below
	}
	if len(conn.refs) == 2 {
		lib.VerifAssert(conn.refs[0] != conn.refs[1], "two important sends never wait under the same reference")
	}
}

type c07Conn struct {
	vfConn
	refs []gen.Ref
}

func (c *c07Conn) SendPID(from gen.PID, to gen.PID, options gen.MessageOptions, message any) error {
	c.refs = append(c.refs, options.Ref)
	return nil
}
