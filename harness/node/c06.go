//go:build verif

package node

import (
	"ergo.services/ergo/gen"
	"ergo.services/ergo/lib"
)

// VerifC06MakeRef: references minted by one node never repeat within its lifetime.
// Two calls of the real MakeRef at counter values c0 and c0+d (1 <= d < 2^62) must differ.
func VerifC06MakeRef() {
	n := &node{name: "a@h", creation: 1}
	c0 := lib.VerifUint64("c0")
	d := lib.VerifUint64("d")
	lib.VerifAssume(d >= 1 && d < 1<<62 && c0 < 1<<62)
	n.uniqID = c0
	r1 := n.MakeRef()
	n.uniqID = c0 + d
	r2 := n.MakeRef()
	lib.VerifReach("both refs made")
	lib.VerifAssert(r1 != r2, "refs never repeat")
}

// VerifC06Release: a symbolic history of registry operations by one process (names, aliases,
// events, links and monitors as requester), then the real unregisterProcess. Afterwards nothing
// may resolve to it, every identity can be claimed again, and it appears in no relation.
func VerifC06Release() {
	k := lib.VerifParam("ops", 4)
	n := vfNode()
	p, _ := vfProc(n, 2000, "", gen.ProcessStateRunning, 0)
	q, _ := vfProc(n, 2001, "other", gen.ProcessStateRunning, 0)
	var created []gen.Alias
	var live []gen.Alias
	names := []gen.Atom{"a", "b"}
	for i := 0; i < k; i++ {
		switch lib.VerifPick("op", 8) {
		case 0:
			err := p.RegisterName(names[lib.VerifPick("name", 2)])
			if err == nil {
				v, ok := n.names.Load(p.name)
				lib.VerifAssert(ok && v.(*process) == p, "a registered name resolves to its owner")
			}
		case 1:
			p.UnregisterName()
		case 2:
			if len(created) < 3 {
				a, err := p.CreateAlias()
				lib.VerifAssert(err == nil, "alias created")
				for _, o := range created {
					lib.VerifAssert(o != a, "aliases are never repeated")
				}
				created = append(created, a)
				live = append(live, a)
			}
		case 3:
			if len(live) > 0 {
				j := lib.VerifPick("which", len(live))
				err := p.DeleteAlias(live[j])
				lib.VerifAssert(err == nil, "own alias deleted")
				live = append(live[:j:j], live[j+1:]...)
			}
		case 4:
			p.RegisterEvent("ev", gen.EventOptions{})
		case 5:
			p.UnregisterEvent("ev")
		case 6:
			p.LinkPID(q.pid)
		case 7:
			p.MonitorProcessID(gen.ProcessID{Name: "other", Node: n.name})
		}
		// at any moment every live alias resolves to its owner, deleted ones to nobody
		for _, a := range created {
			v, ok := n.aliases.Load(a)
			isLive := false
			for _, l := range live {
				isLive = isLive || l == a
			}
			lib.VerifAssert(ok == isLive && (!ok || v.(*process) == p), "an alias resolves to its owner exactly while it exists")
		}
	}
	name := p.name
	p.state = int32(gen.ProcessStateTerminated)
	n.unregisterProcess(p, gen.TerminateReasonNormal)
	lib.VerifReach("terminated")

	_, ok := n.processes.Load(p.pid)
	lib.VerifAssert(!ok, "a terminated process is absent from the process table")
	for _, nm := range names {
		if v, ok := n.names.Load(nm); ok {
			lib.VerifAssert(v.(*process) != p, "no name resolves to a terminated process")
		}
	}
	for _, a := range created {
		_, ok := n.aliases.Load(a)
		lib.VerifAssert(!ok, "no alias resolves to a terminated process")
	}
	_, ok = n.events.Load(gen.Event{Name: "ev", Node: n.name})
	lib.VerifAssert(!ok, "events of a terminated process are gone")
	links, mons := n.targetManager.GetTargetsForConsumer(p.pid)
	lib.VerifAssert(len(links) == 0 && len(mons) == 0, "a terminated process appears in no relation as requester")
	lib.VerifAssert(len(n.targetManager.GetConsumersForTarget(p.pid)) == 0, "a terminated process appears in no relation as target")
	if name != "" {
		lib.VerifAssert(q.UnregisterName() == nil && q.RegisterName(name) == nil, "the name of a terminated process can be claimed again")
	}
	_, err := q.RegisterEvent("ev", gen.EventOptions{})
	lib.VerifAssert(err == nil, "the event name of a terminated process can be claimed again")
}

// VerifC06Unique: claims of one name (and one event name) by two processes in a symbolic order:
// exactly one claimant holds it at any time and the table resolves to that one.
func VerifC06Unique() {
	k := lib.VerifParam("ops", 4)
	n := vfNode()
	ps := [2]*process{}
	ps[0], _ = vfProc(n, 2000, "", gen.ProcessStateRunning, 0)
	ps[1], _ = vfProc(n, 2001, "", gen.ProcessStateRunning, 0)
	owner := -1
	evOwner := -1
	for i := 0; i < k; i++ {
		c := lib.VerifPick("who", 2)
		switch lib.VerifPick("op", 4) {
		case 0:
			free := owner == -1
			err := ps[c].RegisterName("x")
			lib.VerifAssert((err == nil) == free, "a name is granted exactly when nobody holds it")
			if err == nil {
				owner = c
			} else {
				lib.VerifAssert(err == gen.ErrTaken, "the losing claimant gets ErrTaken")
			}
		case 1:
			if ps[c].UnregisterName() == nil && owner == c {
				owner = -1
			}
		case 2:
			_, err := ps[c].RegisterEvent("e", gen.EventOptions{})
			if err == nil {
				lib.VerifAssert(evOwner == -1, "an event name is granted to exactly one claimant")
				evOwner = c
			} else {
				lib.VerifAssert(evOwner != -1 && err == gen.ErrTaken, "a taken event name is refused with ErrTaken")
			}
		case 3:
			err := ps[c].UnregisterEvent("e")
			if err == nil {
				lib.VerifAssert(evOwner == c, "only the owner can unregister an event")
				evOwner = -1
			}
		}
		v, ok := n.names.Load(gen.Atom("x"))
		lib.VerifAssert(ok == (owner != -1) && (!ok || v.(*process) == ps[owner]), "the name table resolves to the one owner")
	}
	lib.VerifReach("history done")
}
