//go:build verif

package node

import (
	"ergo.services/ergo/lib"
)

// VerifC06MakeRef: references minted by one node never repeat within its lifetime.
// Two calls of the real MakeRef at counter values c0 and c0+d (1 <= d < 2^62) must differ.
func VerifC06MakeRef() {
	n := &node{name: "a@h", creation: 1}
	c0 := lib.VerifUint64("c0")
	d := lib.VerifUint64("d")
	lib.VerifAssume(d >= 1 && d < 1<<62 && c0 < 1<<62)
	n.uniqID = c0
	r1 := n.MakeRef()
	n.uniqID = c0 + d
	r2 := n.MakeRef()
	lib.VerifReach("both refs made")
	lib.VerifAssert(r1 != r2, "refs never repeat")
}
