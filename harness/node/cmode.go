//go:build verif

package node

import (
	"ergo.services/ergo/app/system"
	"ergo.services/ergo/gen"
	"ergo.services/ergo/lib"
	"sync/atomic"
)

// cmBehavior is the fake process behaviour of the concurrency harnesses: its callbacks carry the
// overlap monitor (in == 0 on entry) and count what they handle in shared monitor cells.
type cmBehavior struct {
	p        *process
	in       int    // 1 while a callback of this process is executing
	handled  [4]int // per message tag: how often it was handled (capped at 2)
	terms    int    // how often ProcessTerminate ran (capped at 2)
	termKill int    // ProcessTerminate saw TerminateReasonKill
	afterEnd int    // a ProcessRun entered after ProcessTerminate
	failTag  int    // handler returns an error when it handles this tag (-1 never)
	callTag  int    // handler makes a synchronous request (which times out) when it handles this tag (-1 never)
	queue    int    // which mailbox queue this behaviour serves: 0 main, 1 system (High), 2 urgent (Max)
}

func (b *cmBehavior) enter() {
	v := lib.VerifSharedLoad(&b.in)
	lib.VerifAssert(v == 0, "one callback of a process at a time")
	lib.VerifSharedStore(&b.in, 1)
}
func (b *cmBehavior) leave() { lib.VerifSharedStore(&b.in, 0) }

func (b *cmBehavior) ProcessInit(process gen.Process, args ...any) error { return nil }
func (b *cmBehavior) ProcessRun() error {
	if lib.VerifPathCount("activations") > lib.VerifParam("activations", 2) {
		lib.VerifCut() // unwinding bound: activations of one runner goroutine
	}
	b.enter()
	t := lib.VerifSharedLoad(&b.terms)
	lib.VerifAssert(t == 0, "no callback runs after the terminate callback")
	var result error
	for {
		q := b.p.mailbox.Main
		switch b.queue {
		case 1:
			q = b.p.mailbox.System
		case 2:
			q = b.p.mailbox.Urgent
		}
		v, ok := q.Pop()
		if !ok {
			break
		}
		m := v.(*gen.MailboxMessage)
		tag := m.Message.(int)
		h := lib.VerifSharedLoad(&b.handled[tag])
		lib.VerifAssert(h == 0, "a message is handled at most once")
		lib.VerifSharedStore(&b.handled[tag], 1)
		if tag == b.callTag {
			// a synchronous request nobody answers: the real waitResponse parks the process in the
			// WaitResponse state until the (virtual) timer fires
			b.p.waitResponse(gen.Ref{Node: "n@h", ID: [3]uint64{77, 0, 0}}, 1)
			lib.VerifReach("handler waited for a response")
		}
		if tag == b.failTag {
			result = errVfReason
			break
		}
	}
	b.leave()
	return result
}
func (b *cmBehavior) ProcessTerminate(reason error) {
	b.enter()
	t := lib.VerifSharedLoad(&b.terms)
	lib.VerifAssert(t == 0, "the terminate callback runs at most once")
	lib.VerifSharedStore(&b.terms, 1)
	if reason == gen.TerminateReasonKill {
		lib.VerifSharedStore(&b.termKill, 1)
	}
	b.leave()
}

// VerifC01Gate (concurrency mode): N senders deliver tagged messages with the real RouteSendPID
// (table lookup, isAlive, lock-free Push, run) to one sleeping process while K killers call the
// real node.Kill; runner goroutines come from the real `go` in process.run and Kill. For every
// interleaving of the shared accesses: callbacks never overlap, a message is handled at most once,
// the terminate callback runs at most once and nothing runs after it; at quiescence a send that
// reported success to a process that stayed alive was handled exactly once and no message is left
// behind with the process asleep.
func VerifC01Gate() {
	senders := lib.VerifParam("senders", 2)
	kills := lib.VerifParam("kills", 0)
	lib.VerifClockAdvance(0)
	n := vfNode()
	p, _ := vfProc(n, 2000, "", gen.ProcessStateSleep, 0)
	prio := lib.VerifParam("priority", 0)
	b := &cmBehavior{p: p, failTag: lib.VerifParam("failtag", -1), callTag: lib.VerifParam("calltag", -1), queue: prio}
	mprio := []gen.MessagePriority{gen.MessagePriorityNormal, gen.MessagePriorityHigh, gen.MessagePriorityMax}[prio]
	p.behavior = b
	unreg := 0
	lib.VerifOverride("(*ergo.services/ergo/node.node).unregisterProcess", func(nn *node, pp *process, reason error) {
		u := lib.VerifSharedLoad(&unreg)
		lib.VerifAssert(u == 0, "a process is unregistered at most once")
		lib.VerifSharedStore(&unreg, 1)
	})
	if lib.VerifParam("preload", 0) == 1 {
		// one message (tag 3) is already queued and a waker runs the real process.run(): the runner it
		// starts races with the senders below (a send while the process is about to go to sleep)
		qm := gen.TakeMailboxMessage()
		qm.Message = 3
		q := p.mailbox.Main
		switch prio {
		case 1:
			q = p.mailbox.System
		case 2:
			q = p.mailbox.Urgent
		}
		q.Push(qm)
		lib.VerifGo("waker", func() { p.run() })
	}
	sent := make([]int, senders) // 1 ok, 2 error
	for i := 0; i < senders; i++ {
		i := i
		from := gen.PID{Node: n.name, ID: 3000 + uint64(i), Creation: 1}
		lib.VerifGo("sender", func() {
			err := n.RouteSendPID(from, p.pid, gen.MessageOptions{Priority: mprio}, i)
			if err == nil {
				lib.VerifSharedStore(&sent[i], 1)
			} else {
				lib.VerifSharedStore(&sent[i], 2)
			}
		})
	}
	for k := 0; k < kills; k++ {
		lib.VerifGo("killer", func() { n.Kill(p.pid) })
	}
	lib.VerifAtQuiescence(func() {
		alive := lib.VerifSharedLoad(&b.terms) == 0 && lib.VerifSharedLoad(&unreg) == 0
		if lib.VerifParam("preload", 0) == 1 && alive {
			lib.VerifAssert(lib.VerifSharedLoad(&b.handled[3]) == 1, "a queued message is handled once the process has been woken")
		}
		for i := 0; i < senders; i++ {
			s := lib.VerifSharedLoad(&sent[i])
			h := lib.VerifSharedLoad(&b.handled[i])
			if s == 2 {
				lib.VerifAssert(h == 0, "a send that reported an error is never handled")
			}
			if s == 1 && alive {
				lib.VerifAssert(h == 1, "a send that reported success to a process that stays alive is handled exactly once, without further traffic")
			}
		}
		if kills > 0 || b.failTag >= 0 {
			t := lib.VerifSharedLoad(&b.terms)
			u := lib.VerifSharedLoad(&unreg)
			lib.VerifAssert(t == u, "the terminate callback runs exactly when the process is unregistered")
		}
	})
}

// VerifC04Race (concurrency mode): a link or monitor request by pid, registered name or alias (real
// process API -> node.Route{Link,Monitor}{PID,ProcessID,Alias} -> default target manager) races with the
// target's termination (real node.unregisterProcess: table removal, RouteTerminatePID, target
// manager clean-up). For every interleaving of their shared accesses: a request that reported
// success is notified exactly once when the target has gone; a request that reported an error is
// not notified.
func VerifC04Race() {
	lib.VerifClockAdvance(0)
	n := vfNode()
	kind := lib.VerifParam("target", 0) // 0: by pid, 1: by registered name, 2: by alias
	var name gen.Atom
	if kind == 1 {
		name = "t"
	}
	target, _ := vfProc(n, 2000, name, gen.ProcessStateSleep, 0)
	consumer, _ := vfProc(n, 2001, "", gen.ProcessStateRunning, 0)
	target.application = system.Name // keeps the node's shutdown wait-group out of the picture
	alias := gen.Alias{Node: n.name, Creation: n.creation, ID: [3]uint64{77, 0, 0}}
	if kind == 2 {
		target.aliases = append(target.aliases, alias)
		n.aliases.Store(alias, target)
	}
	lib.VerifGuarded(n.targetManager) // relation tables behind the manager's RWMutex
	lib.VerifGuarded(&n.processes)    // process table (sync.Map)
	lib.VerifGuarded(&n.names)
	lib.VerifGuarded(&n.aliases)
	monitor := lib.VerifParam("monitor", 0) == 1
	notes := 0 // notifications sent to the consumer (saturates at 2: a closed domain for the unfolding)
	bump := func() {
		if v := lib.VerifSharedLoad(&notes); v < 2 {
			lib.VerifSharedStore(&notes, v+1)
		}
	}
	lib.VerifOverride("(*ergo.services/ergo/node.node).sendExitMessage", func(nn *node, from gen.PID, to gen.PID, message any) error {
		if to == consumer.pid {
			bump()
		}
		return nil
	})
	lib.VerifOverride("(*ergo.services/ergo/node.node).RouteSendPID", func(nn *node, from gen.PID, to gen.PID, options gen.MessageOptions, message any) error {
		down := false
		switch message.(type) {
		case gen.MessageDownPID, gen.MessageDownProcessID, gen.MessageDownAlias:
			down = true
		}
		if down && to == consumer.pid {
			bump()
		}
		return nil
	})
	res := 0  // 1: request succeeded, 2: request failed
	gone := 0 // 1: the target's termination has completed
	lib.VerifGo("requester", func() {
		var err error
		switch {
		case kind == 0 && !monitor:
			err = consumer.LinkPID(target.pid)
		case kind == 0:
			err = consumer.MonitorPID(target.pid)
		case kind == 1 && !monitor:
			err = consumer.LinkProcessID(gen.ProcessID{Name: "t", Node: n.name})
		case kind == 1:
			err = consumer.MonitorProcessID(gen.ProcessID{Name: "t", Node: n.name})
		case !monitor:
			err = consumer.LinkAlias(alias)
		default:
			err = consumer.MonitorAlias(alias)
		}
		if err == nil {
			lib.VerifSharedStore(&res, 1)
		} else {
			lib.VerifSharedStore(&res, 2)
		}
	})
	lib.VerifGo("terminator", func() {
		atomic.StoreInt32(&target.state, int32(gen.ProcessStateTerminated))
		n.unregisterProcess(target, errVfReason)
		lib.VerifSharedStore(&gone, 1)
	})
	lib.VerifAtQuiescence(func() {
		r := lib.VerifSharedLoad(&res)
		g := lib.VerifSharedLoad(&gone)
		k := lib.VerifSharedLoad(&notes)
		lib.VerifAssert(k <= 1, "at most one notification per relation")
		if r == 2 {
			lib.VerifAssert(k == 0, "a request that failed is not notified")
		}
		if r == 1 && g == 1 {
			lib.VerifAssert(k == 1, "a request that succeeded is notified once the target has gone")
		}
	})
}

// VerifC06Race (concurrency mode): RegisterName for a process races with that process's termination
// (real node.RegisterName vs the runner's state change + real node.unregisterProcess, with the
// process and name tables shared). For every interleaving: once the process is gone, the name does not
// resolve to it - either the registration failed, or the termination released the name.
func VerifC06Race() {
	lib.VerifClockAdvance(0)
	n := vfNode()
	target, _ := vfProc(n, 2000, "", gen.ProcessStateSleep, 0)
	target.application = system.Name
	lib.VerifGuarded(n.targetManager)
	lib.VerifGuarded(&n.processes)
	lib.VerifGuarded(&n.names)
	lib.VerifShared(&target.name)
	res := 0
	gone := 0
	lib.VerifGo("registrar", func() {
		if err := n.RegisterName("x", target.pid); err == nil {
			lib.VerifSharedStore(&res, 1)
		} else {
			lib.VerifSharedStore(&res, 2)
		}
	})
	lib.VerifGo("terminator", func() {
		atomic.StoreInt32(&target.state, int32(gen.ProcessStateTerminated))
		n.unregisterProcess(target, errVfReason)
		lib.VerifSharedStore(&gone, 1)
	})
	lib.VerifAtQuiescence(func() {
		r := lib.VerifSharedLoad(&res)
		g := lib.VerifSharedLoad(&gone)
		if g == 1 && r != 0 {
			_, bound := n.names.Load(gen.Atom("x"))
			lib.VerifAssert(!bound, "once a process has terminated its name resolves to nothing")
		}
	})
}

// VerifC18Race (concurrency mode): one publication (real process.SendEvent -> RouteSendEvent: push
// into the event's buffer, read the subscribers, deliver) races with one new subscription (real
// process.LinkEvent -> RouteLinkEvent: register the link, hand out the buffered messages). For every
// interleaving the new subscriber sees the publication at most once - delivered, or among the
// buffered messages it is handed, not both - and, once both calls have returned, exactly once.
func VerifC18Race() {
	lib.VerifClockAdvance(0)
	n := vfNode()
	prod, _ := vfProc(n, 2000, "", gen.ProcessStateRunning, 0)
	cons, _ := vfProc(n, 2001, "", gen.ProcessStateRunning, 0)
	lib.VerifGuarded(n.targetManager)
	token, err := prod.RegisterEvent("ev", gen.EventOptions{Buffer: lib.VerifParam("buffer", 1)})
	lib.VerifAssert(err == nil, "event registered")
	ev := gen.Event{Name: "ev", Node: n.name}
	delivered := 0 // the publication was put into the subscriber's mailbox
	lib.VerifOverride("(*ergo.services/ergo/node.node).sendEventMessage", func(nn *node, from gen.PID, to gen.PID, priority gen.MessagePriority, message gen.MessageEvent) error {
		if to == cons.pid {
			if v := lib.VerifSharedLoad(&delivered); v < 2 {
				lib.VerifSharedStore(&delivered, v+1)
			}
		}
		return nil
	})
	handed := 0 // 1: the buffered messages handed to the subscriber contain the publication
	subscribed := 0
	published := 0
	lib.VerifGo("subscriber", func() {
		last, err := cons.LinkEvent(ev)
		if err != nil {
			lib.VerifSharedStore(&subscribed, 2)
			return
		}
		for _, m := range last {
			if m.Message == 7 {
				lib.VerifSharedStore(&handed, 1)
			}
		}
		lib.VerifSharedStore(&subscribed, 1)
	})
	lib.VerifGo("publisher", func() {
		if prod.SendEvent("ev", token, 7) == nil {
			lib.VerifSharedStore(&published, 1)
		}
	})
	lib.VerifAtQuiescence(func() {
		s := lib.VerifSharedLoad(&subscribed)
		p := lib.VerifSharedLoad(&published)
		d := lib.VerifSharedLoad(&delivered)
		h := lib.VerifSharedLoad(&handed)
		lib.VerifAssert(d+h <= 1, "a subscriber sees a publication at most once (delivered or handed over as buffered, not both)")
		if s == 1 && p == 1 {
			lib.VerifAssert(d+h == 1, "a publication racing with a subscription is not lost")
		}
	})
}
