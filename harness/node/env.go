//go:build verif

package node

import (
	"sync"

	"ergo.services/ergo/gen"
	"ergo.services/ergo/lib"
)

// vfBehavior is a fake gen.ProcessBehavior that records what the runtime does to it.
type vfBehavior struct {
	p         *process
	runs      int
	terms     int
	termArg   error
	runResult error
	in        int
	onRun     func() error
}

func (b *vfBehavior) ProcessInit(process gen.Process, args ...any) error { return nil }
func (b *vfBehavior) ProcessRun() error {
	b.runs++
	if b.onRun != nil {
		return b.onRun()
	}
	return b.runResult
}
func (b *vfBehavior) ProcessTerminate(reason error) { b.terms++; b.termArg = reason }

// vfNode builds a node by hand: tables, real default target manager, logging disabled.
func vfNode() *node {
	n := &node{
		name:          "n@h",
		creation:      1,
		corePID:       gen.PID{Node: "n@h", ID: 1, Creation: 1},
		nextID:        1000,
		uniqID:        1000,
		targetManager: gen.CreateDefaultTargetManager(),
		loggers:       make(map[gen.LogLevel]*sync.Map),
		wait:          make(chan struct{}),
	}
	n.log = createLog(gen.LogLevelDisabled, n.dolog)
	n.network = &network{node: n, mode: gen.NetworkModeDisabled}
	return n
}

// vfProc registers a process in state `state` with real mailbox queues (size 0 = unbounded).
func vfProc(n *node, id uint64, name gen.Atom, state gen.ProcessState, mailboxSize int64) (*process, *vfBehavior) {
	b := &vfBehavior{}
	p := &process{
		node:     n,
		pid:      gen.PID{Node: n.name, ID: id, Creation: n.creation},
		behavior: b,
		state:    int32(state),
		parent:   n.corePID,
		leader:   n.corePID,
		response: make(chan response, 10),
	}
	b.p = p
	if mailboxSize > 0 {
		p.mailbox.Main = lib.NewQueueLimitMPSC(mailboxSize, false)
		p.mailbox.System = lib.NewQueueLimitMPSC(mailboxSize, false)
		p.mailbox.Urgent = lib.NewQueueLimitMPSC(mailboxSize, false)
		p.mailbox.Log = lib.NewQueueLimitMPSC(mailboxSize, false)
	} else {
		p.mailbox.Main = lib.NewQueueMPSC()
		p.mailbox.System = lib.NewQueueMPSC()
		p.mailbox.Urgent = lib.NewQueueMPSC()
		p.mailbox.Log = lib.NewQueueMPSC()
	}
	p.log = createLog(gen.LogLevelDisabled, n.dolog)
	n.processes.Store(p.pid, p)
	n.waitprocesses.Add(1)
	if name != "" {
		p.name = name
		p.registered.Store(true)
		n.names.Store(name, p)
	}
	return p, b
}

// drainQueue pops everything from q.
func vfDrain(q lib.QueueMPSC) []*gen.MailboxMessage {
	var out []*gen.MailboxMessage
	for {
		v, ok := q.Pop()
		if !ok {
			return out
		}
		out = append(out, v.(*gen.MailboxMessage))
	}
}
