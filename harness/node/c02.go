//go:build verif

package node

import (
	"ergo.services/ergo/gen"
	"ergo.services/ergo/lib"
)

func c02Lens(p *process) [4]int64 {
	return [4]int64{p.mailbox.Urgent.Len(), p.mailbox.System.Len(), p.mailbox.Main.Len(), p.mailbox.Log.Len()}
}

// VerifC02Send: one local send by pid, registered name or alias with a fully symbolic priority
// value, to a target whose state, mailbox bound, fill level and fallback configuration are
// symbolic. A send that reports success puts exactly one message into exactly one queue (the
// target's queue chosen by the priority, or - when the bounded mailbox is full and a fallback is
// configured - the fallback's queue, wrapped with the original recipient and tag); a send that
// reports an error puts nothing anywhere, and the error says why.
func VerifC02Send() {
	lib.VerifClockAdvance(0)
	n := vfNode()
	limit := int64(lib.VerifPick("limit", 3)) // 0 unbounded, 1, 2
	t, _ := vfProc(n, 2000, "target", gen.ProcessStateSleep, limit)
	alias, err := func() (gen.Alias, error) {
		t.state = int32(gen.ProcessStateRunning)
		a, e := t.CreateAlias()
		t.state = int32(gen.ProcessStateSleep)
		return a, e
	}()
	lib.VerifAssert(err == nil, "setup: alias")
	fbLimit := int64(lib.VerifPick("fblimit", 2))
	fb, _ := vfProc(n, 2001, "fb", gen.ProcessStateSleep, fbLimit)
	sender, _ := vfProc(n, 2002, "", gen.ProcessStateRunning, 0)

	t.fallback.Enable = lib.VerifPick("fbenable", 2) == 1
	t.fallback.Tag = "tag"
	switch lib.VerifPick("fbname", 3) {
	case 0:
		t.fallback.Name = "fb"
	case 1:
		t.fallback.Name = "target"
	case 2:
		t.fallback.Name = "missing"
	}
	// fill levels
	prio := gen.MessagePriority(lib.VerifInt("priority"))
	qidx := 2
	if prio == gen.MessagePriorityHigh {
		qidx = 1
	} else if prio == gen.MessagePriorityMax {
		qidx = 0
	}
	queues := []lib.QueueMPSC{t.mailbox.Urgent, t.mailbox.System, t.mailbox.Main}
	fill := 0
	if limit > 0 {
		fill = lib.VerifPick("fill", int(limit)+1)
		for i := 0; i < fill; i++ {
			queues[qidx].Push(gen.TakeMailboxMessage())
		}
	}
	fbFill := 0
	if fbLimit > 0 {
		fbFill = lib.VerifPick("fbfill", 2)
		for i := 0; i < fbFill; i++ {
			fb.mailbox.Urgent.Push(gen.TakeMailboxMessage())
			fb.mailbox.System.Push(gen.TakeMailboxMessage())
			fb.mailbox.Main.Push(gen.TakeMailboxMessage())
		}
	}
	switch lib.VerifPick("state", 5) {
	case 1:
		t.state = int32(gen.ProcessStateRunning)
	case 2:
		t.state = int32(gen.ProcessStateTerminated)
	case 3:
		t.state = int32(gen.ProcessStateWaitResponse)
	case 4:
		// killed while busy: dead, but still in the process table until its goroutine returns
		t.state = int32(gen.ProcessStateZombee)
	}
	dead := t.state == int32(gen.ProcessStateTerminated) || t.state == int32(gen.ProcessStateZombee)
	unknown := lib.VerifPick("unknown", 2) == 1

	before, fbBefore := c02Lens(t), c02Lens(fb)
	opts := gen.MessageOptions{Priority: prio}
	how := lib.VerifPick("how", 4)
	switch how {
	case 0:
		to := t.pid
		if unknown {
			to.ID = 9999
		}
		err = n.RouteSendPID(sender.pid, to, opts, "hello")
	case 1:
		nm := gen.Atom("target")
		if unknown {
			nm = "nobody"
		}
		err = n.RouteSendProcessID(sender.pid, gen.ProcessID{Name: nm, Node: n.name}, opts, "hello")
	case 2:
		a := alias
		if unknown {
			a.ID[0] += 77
		}
		err = n.RouteSendAlias(sender.pid, a, opts, "hello")
	case 3:
		// the hand-over used by act.Pool: real process.Forward (no fallback on this path)
		to := t.pid
		if unknown {
			to.ID = 9999
		}
		qm := gen.TakeMailboxMessage()
		qm.From = sender.pid
		qm.Type = gen.MailboxMessageTypeRegular
		qm.Message = "hello"
		err = sender.Forward(to, qm, prio)
	}
	after, fbAfter := c02Lens(t), c02Lens(fb)
	grewT, grewFB := int64(0), int64(0)
	for i := 0; i < 4; i++ {
		grewT += after[i] - before[i]
		grewFB += fbAfter[i] - fbBefore[i]
	}
	lib.VerifReach("send done")
	if err != nil {
		lib.VerifAssert(grewT == 0 && grewFB == 0, "a send that reports an error is queued nowhere")
		switch {
		case unknown:
			lib.VerifAssert(err == gen.ErrProcessUnknown, "unknown addressee is reported as such")
		case dead:
			lib.VerifAssert(err == gen.ErrProcessTerminated, "terminated addressee is reported as such")
		default:
			lib.VerifAssert(err == gen.ErrProcessMailboxFull || err == gen.ErrProcessUnknown, "otherwise only a full mailbox (or a missing fallback) refuses a message")
			lib.VerifAssert(limit > 0 && fill == int(limit), "a message is refused as 'mailbox full' only when the bounded queue is full")
		}
		return
	}
	lib.VerifAssert(!unknown && !dead, "success is reported only for a live, known addressee")
	lib.VerifAssert(grewT+grewFB == 1, "a send that reports success is queued exactly once")
	if grewT == 1 {
		lib.VerifAssert(after[qidx]-before[qidx] == 1, "the message goes to the queue its priority selects: Max->urgent, High->system, anything else->main")
		// find it: the newest item of that queue
		var last *gen.MailboxMessage
		for it := queues[qidx].Item(); it != nil; it = it.Next() {
			last = it.Value().(*gen.MailboxMessage)
		}
		lib.VerifAssert(last != nil && last.Message == "hello" && last.From == sender.pid && last.Type == gen.MailboxMessageTypeRegular, "the queued message carries the payload and the true sender")
		lib.VerifReach("delivered to the target")
	} else {
		lib.VerifAssert(how != 3 && limit > 0 && fill == int(limit) && t.fallback.Enable && t.fallback.Name == "fb", "the fallback is used only by a send, when the bounded mailbox is full and a fallback is configured")
		fq := []lib.QueueMPSC{fb.mailbox.Urgent, fb.mailbox.System, fb.mailbox.Main}
		lib.VerifAssert(fbAfter[qidx]-fbBefore[qidx] == 1, "the fallback copy keeps the priority class")
		var last *gen.MailboxMessage
		for it := fq[qidx].Item(); it != nil; it = it.Next() {
			last = it.Value().(*gen.MailboxMessage)
		}
		ok := false
		if last != nil {
			if m, is := last.Message.(gen.MessageFallback); is {
				ok = m.PID == t.pid && m.Tag == "tag" && m.Message == "hello"
			}
		}
		lib.VerifAssert(ok, "the fallback receives the message wrapped with the original recipient and tag")
		lib.VerifReach("delivered to the fallback")
	}
}

// VerifC03PrioritySites: every code site that maps a priority to a mailbox queue - the process API
// (Send to itself by pid / name / alias, Send to another process, SendWithPriority, Forward, events)
// and the request path - puts the message into urgent for Max, system for High and main otherwise,
// for every value of the priority, so that messages of one sender and one priority share one FIFO
// whichever addressing mode is used.
func VerifC03PrioritySites() {
	site := lib.VerifShard("site", 8)
	lib.VerifClockAdvance(0)
	n := vfNode()
	p, _ := vfProc(n, 2000, "me", gen.ProcessStateRunning, 0)
	alias, err := p.CreateAlias()
	lib.VerifAssert(err == nil, "setup: alias")
	other, _ := vfProc(n, 2001, "other", gen.ProcessStateRunning, 0)
	prio := gen.MessagePriority(lib.VerifInt("priority"))
	target := p
	if site == 3 || site == 5 || site == 6 || site == 7 {
		target = other
	}
	before := c02Lens(target)
	useProcessPriority := func() bool {
		// the process API only takes the three defined priorities
		if prio != gen.MessagePriorityNormal && prio != gen.MessagePriorityHigh && prio != gen.MessagePriorityMax {
			lib.VerifAssert(p.SetSendPriority(prio) == gen.ErrIncorrect, "an undefined priority is refused by SetSendPriority")
			return false
		}
		lib.VerifAssert(p.SetSendPriority(prio) == nil, "a defined priority is accepted")
		return true
	}
	switch site {
	case 0: // to itself by pid
		if !useProcessPriority() {
			return
		}
		err = p.SendPID(p.pid, "m")
	case 1: // to itself by name
		if !useProcessPriority() {
			return
		}
		err = p.SendProcessID(gen.ProcessID{Name: "me", Node: n.name}, "m")
	case 2: // to itself by alias
		if !useProcessPriority() {
			return
		}
		err = p.SendAlias(alias, "m")
	case 3: // to another process through Send(any)
		if !useProcessPriority() {
			return
		}
		err = p.Send(other.pid, "m")
	case 4: // SendWithPriority to itself
		if prio != gen.MessagePriorityNormal && prio != gen.MessagePriorityHigh && prio != gen.MessagePriorityMax {
			return
		}
		err = p.SendWithPriority(p.pid, "m", prio)
	case 5: // Forward of a mailbox message
		m := gen.TakeMailboxMessage()
		m.Message = "m"
		err = p.Forward(other.pid, m, prio)
	case 6: // request routed to a process
		err = n.RouteCallPID(p.pid, other.pid, gen.MessageOptions{Priority: prio, Ref: n.MakeRef()}, "m")
	case 7: // event delivery
		err = n.sendEventMessage(p.pid, other.pid, prio, gen.MessageEvent{Event: gen.Event{Name: "e", Node: n.name}, Message: "m"})
	}
	lib.VerifAssert(err == nil, "the message is accepted")
	after := c02Lens(target)
	want := 2
	if prio == gen.MessagePriorityHigh {
		want = 1
	} else if prio == gen.MessagePriorityMax {
		want = 0
	}
	for q := 0; q < 4; q++ {
		d := int64(0)
		if q == want {
			d = 1
		}
		lib.VerifAssert(after[q]-before[q] == d, "Max goes to the urgent queue, High to the system queue, everything else to the main queue")
	}
	lib.VerifReach("priority site checked")
}

// c02Late is a behaviour into whose mailbox a message lands after its last look at the queues and
// before the runner puts the process to sleep (the sender's own run() finds it Running and leaves).
type c02Late struct {
	n           *node
	p           *process
	queue       int // 0 main, 1 system (High), 2 urgent (Max), 3 log
	activations int
	handled     int
	pushed      bool
	sendErr     error
}

func (b *c02Late) ProcessInit(process gen.Process, args ...any) error { return nil }
func (b *c02Late) ProcessRun() error {
	b.activations++
	for _, q := range []lib.QueueMPSC{b.p.mailbox.Urgent, b.p.mailbox.System, b.p.mailbox.Main, b.p.mailbox.Log} {
		for {
			if _, ok := q.Pop(); !ok {
				break
			}
			b.handled++
		}
	}
	if !b.pushed {
		b.pushed = true
		from := gen.PID{Node: b.n.name, ID: 3000, Creation: 1}
		switch b.queue {
		case 3:
			b.p.mailbox.Log.Push(gen.TakeMailboxMessage())
			b.p.run()
		default:
			prio := []gen.MessagePriority{gen.MessagePriorityNormal, gen.MessagePriorityHigh, gen.MessagePriorityMax}[b.queue]
			b.sendErr = b.n.RouteSendPID(from, b.p.pid, gen.MessageOptions{Priority: prio}, "late")
		}
	}
	return nil
}
func (b *c02Late) ProcessTerminate(reason error) {}

// VerifC02Recheck: the window between a behaviour's last look at its queues and the runner's
// Running->Sleep transition, taken sequentially: a message is accepted in that window (real
// RouteSendPID at a symbolic priority, or a log message; the sender's run() sees Running and does
// nothing). The real runner must notice it in whichever queue it is and activate the behaviour
// again: the message is handled without any further traffic and the process ends up asleep with
// empty queues.
func VerifC02Recheck() {
	lib.VerifClockAdvance(0)
	n := vfNode()
	p, _ := vfProc(n, 2000, "", gen.ProcessStateSleep, 0)
	b := &c02Late{n: n, p: p, queue: lib.VerifPick("queue", 4)}
	p.behavior = b
	first := lib.VerifPick("first", 2) // the process is woken by a message (1) or by a bare run() (0)
	if first == 1 {
		p.mailbox.Main.Push(gen.TakeMailboxMessage())
	}
	p.run()
	lib.VerifYield()
	lib.VerifAssert(b.sendErr == nil, "a send to a running process is accepted")
	lib.VerifAssert(b.handled == 1+first, "a message accepted while the process was about to go to sleep is handled without further traffic")
	lib.VerifAssert(b.activations == 2, "the runner activates the behaviour again for the late message, once")
	lib.VerifAssert(p.state == int32(gen.ProcessStateSleep), "the process is asleep afterwards")
	lib.VerifAssert(p.mailbox.Main.Item() == nil && p.mailbox.System.Item() == nil && p.mailbox.Urgent.Item() == nil && p.mailbox.Log.Item() == nil, "no message is left behind with the process asleep")
	lib.VerifReach("late message handled")
}

// --- meta-processes: the same window for meta.handle() ---

type c02MetaB struct {
	handled, calls, terms int
}

func (b *c02MetaB) Init(process gen.MetaProcess) error { return nil }
func (b *c02MetaB) Start() error                       { return nil }
func (b *c02MetaB) HandleMessage(from gen.PID, message any) error {
	b.handled++
	return nil
}
func (b *c02MetaB) HandleCall(from gen.PID, ref gen.Ref, request any) (any, error) {
	b.calls++
	return nil, nil
}
func (b *c02MetaB) Terminate(reason error)                                    { b.terms++ }
func (b *c02MetaB) HandleInspect(from gen.PID, item ...string) map[string]string { return nil }

// c02Window wraps a real queue of the meta-process: each time the queue is about to answer "empty"
// (Pop without a value, Item without an item) a shared countdown is decremented, and when it reaches
// zero `fire` runs first - i.e. something happens right after that look at the queue.
type c02Window struct {
	lib.QueueMPSC
	count *int
	fire  func()
}

func (q *c02Window) look() {
	*q.count--
	if *q.count == 0 {
		q.fire()
	}
}
func (q *c02Window) Pop() (any, bool) {
	v, ok := q.QueueMPSC.Pop()
	if ok == false {
		q.look()
	}
	return v, ok
}
func (q *c02Window) Item() lib.ItemMPSC {
	it := q.QueueMPSC.Item()
	if it == nil {
		q.look()
	}
	return it
}

// VerifC02MetaRecheck: a meta-process (alias-addressed) with 0 or 1 queued message is activated by the
// real meta.handle(); right after a symbolically chosen look of its runner at an empty queue (each Pop
// and each Item of the system and main queues that finds nothing, up to the 6th) one more message is
// accepted by the real RouteSendAlias / RouteCallAlias / SendExitMeta. Whatever the point - in
// particular between the runner's last look and its Running->Sleep transition - the message must be
// handled without further traffic, exactly once, and the meta-process ends asleep (or terminated, for
// the exit signal) with empty queues.
func VerifC02MetaRecheck() {
	lib.VerifClockAdvance(0)
	n := vfNode()
	p, _ := vfProc(n, 2000, "", gen.ProcessStateRunning, 0)
	b := &c02MetaB{}
	count := lib.VerifPick("look", 6) + 1
	kind := lib.VerifPick("kind", 3)
	m := &meta{p: p, behavior: b, priority: gen.MessagePriorityNormal, state: int32(gen.MetaStateSleep)}
	m.id = gen.Alias{Node: n.name, Creation: n.creation, ID: [3]uint64{70, 71, 72}}
	m.log = createLog(gen.LogLevelDisabled, n.dolog)
	fired := 0
	var sendErr error
	fire := func() {
		fired++
		from := gen.PID{Node: n.name, ID: 3000, Creation: n.creation}
		switch kind {
		case 0:
			sendErr = n.RouteSendAlias(from, m.id, gen.MessageOptions{}, 7)
		case 1:
			sendErr = n.RouteCallAlias(from, m.id, gen.MessageOptions{Ref: gen.Ref{Node: n.name, Creation: n.creation, ID: [3]uint64{5, 0, 0}}}, 7)
		default:
			sendErr = p.SendExitMeta(m.id, gen.TerminateReasonShutdown)
		}
	}
	m.main = &c02Window{QueueMPSC: lib.NewQueueMPSC(), count: &count, fire: fire}
	m.system = &c02Window{QueueMPSC: lib.NewQueueMPSC(), count: &count, fire: fire}
	p.metas.Store(m.id, m)
	n.aliases.Store(m.id, p)
	first := lib.VerifPick("first", 2)
	if first == 1 {
		qm := gen.TakeMailboxMessage()
		qm.Type = gen.MailboxMessageTypeRegular
		qm.Message = 1
		m.main.Push(qm)
	}
	m.handle()
	for i := 0; i < 6; i++ {
		lib.VerifYield()
	}
	if fired == 0 {
		// the run had fewer empty looks than the chosen point: nothing was sent
		lib.VerifAssert(b.handled == first, "the queued message is handled")
		return
	}
	lib.VerifAssert(fired == 1 && sendErr == nil, "a send to a live meta-process is accepted")
	if kind == 2 {
		lib.VerifAssert(b.terms == 1, "an exit signal accepted while the meta-process was about to go to sleep terminates it without further traffic, once")
		lib.VerifAssert(m.state == int32(gen.MetaStateTerminated), "the meta-process is terminated afterwards")
	} else {
		lib.VerifAssert(b.handled+b.calls == first+1, "a message accepted while the meta-process was about to go to sleep is handled without further traffic, exactly once")
		lib.VerifAssert(m.state == int32(gen.MetaStateSleep), "the meta-process is asleep afterwards")
		lib.VerifAssert(m.main.(*c02Window).QueueMPSC.Item() == nil && m.system.(*c02Window).QueueMPSC.Item() == nil, "no message is left behind with the meta-process asleep")
	}
	lib.VerifReach("late meta message handled")
}
