//go:build verif

package node

import (
	"time"

	"ergo.services/ergo/gen"
	"ergo.services/ergo/lib"
)

// c20Item is one comma-separated item of a crontab field, in structured form.
type c20Item struct {
	kind    int // 0 '*', 1 'a', 2 'a-b', 3 '*/s', 4 'a-b/s', 5 'L' (day), 6 'dL' (weekday), 7 'd#n' (weekday)
	a, b, s int
}

func c20Itoa(n int) string {
	if n >= 10 {
		return string(rune('0'+n/10)) + string(rune('0'+n%10))
	}
	return string(rune('0' + n))
}

func (it c20Item) String() string {
	switch it.kind {
	case 0:
		return "*"
	case 1:
		return c20Itoa(it.a)
	case 2:
		return c20Itoa(it.a) + "-" + c20Itoa(it.b)
	case 3:
		return "*/" + c20Itoa(it.s)
	case 4:
		return c20Itoa(it.a) + "-" + c20Itoa(it.b) + "/" + c20Itoa(it.s)
	case 5:
		return "L"
	case 6:
		return c20Itoa(it.a) + "L"
	}
	return c20Itoa(it.a) + "#" + c20Itoa(it.b)
}

func c20Field(items []c20Item) string {
	s := ""
	for i, it := range items {
		if i > 0 {
			s += ","
		}
		s += it.String()
	}
	return s
}

func b2i(c bool) int { return lib.VerifIte(c, 1, 0) }

// c20Match: does value v (of a field whose smallest value is min) match the item, by crontab rules
// (1/0, computed without branching so that the reference adds no paths).
// dim = days in this month, dom = day of month (for the weekday forms).
func c20Match(it c20Item, v, min, dim, dom int) int {
	switch it.kind {
	case 0:
		return 1
	case 1:
		return b2i(v == it.a)
	case 2:
		return b2i(v >= it.a) & b2i(v <= it.b)
	case 3:
		return b2i((v-min)%it.s == 0)
	case 4:
		return b2i(v >= it.a) & b2i(v <= it.b) & b2i((v-it.a)%it.s == 0)
	case 5:
		return b2i(v == dim)
	case 6: // last weekday a of the month
		return b2i(v == it.a) & b2i(dom+7 > dim)
	}
	// a#b: b-th weekday a of the month
	return b2i(v == it.a) & b2i((dom-1)/7+1 == it.b)
}

func c20Any(items []c20Item, v, min, dim, dom int) int {
	r := 0
	for _, it := range items {
		r = r | c20Match(it, v, min, dim, dom)
	}
	return r
}

func c20Wild(items []c20Item) bool { return len(items) == 1 && items[0].kind == 0 }

// c20DaysIn without branching on the symbolic year/month.
func c20DaysIn(year int, month time.Month) int {
	m := int(month)
	thirty := b2i(m == 4) | b2i(m == 6) | b2i(m == 9) | b2i(m == 11)
	feb := b2i(m == 2)
	leap := b2i(year%4 == 0) & (b2i(year%100 != 0) | b2i(year%400 == 0))
	return 31 - thirty - feb*(3-leap)
}

// a small set of items per field, chosen to hit the boundaries of each form
var (
	c20Min   = []c20Item{{kind: 0}, {kind: 1, a: 0}, {kind: 1, a: 59}, {kind: 2, a: 10, b: 20}, {kind: 3, s: 15}, {kind: 4, a: 5, b: 55, s: 25}, {kind: 3, s: 7}}
	c20Hour  = []c20Item{{kind: 0}, {kind: 1, a: 0}, {kind: 1, a: 23}, {kind: 2, a: 9, b: 17}, {kind: 3, s: 6}, {kind: 4, a: 1, b: 23, s: 11}}
	c20Day   = []c20Item{{kind: 0}, {kind: 1, a: 1}, {kind: 1, a: 31}, {kind: 2, a: 28, b: 31}, {kind: 3, s: 10}, {kind: 4, a: 1, b: 31, s: 2}, {kind: 5}, {kind: 1, a: 29}}
	c20Month = []c20Item{{kind: 0}, {kind: 1, a: 1}, {kind: 1, a: 12}, {kind: 2, a: 2, b: 4}, {kind: 3, s: 3}, {kind: 1, a: 2}}
	c20WDay  = []c20Item{{kind: 0}, {kind: 1, a: 1}, {kind: 1, a: 7}, {kind: 2, a: 1, b: 5}, {kind: 6, a: 5}, {kind: 6, a: 7}, {kind: 7, a: 1, b: 1}, {kind: 7, a: 3, b: 5}, {kind: 7, a: 7, b: 2}}
)

// simple subsets (plain numbers and ranges) for the quick tier: the L / dL / d#n / step forms of the
// date fields need minutes of solver time per item and are explored in the thorough tier
var (
	c20DaySimple   = []c20Item{{kind: 1, a: 1}, {kind: 1, a: 31}, {kind: 1, a: 29}}
	c20MonthSimple = []c20Item{{kind: 1, a: 1}, {kind: 1, a: 12}, {kind: 2, a: 2, b: 4}}
	c20WDaySimple  = []c20Item{{kind: 1, a: 1}, {kind: 1, a: 7}, {kind: 2, a: 1, b: 5}}
)

func c20Pick(name string, set []c20Item, two bool) []c20Item {
	if lib.VerifParam("simple", 0) == 1 {
		switch name {
		case "day":
			if len(set) > 3 {
				set = c20DaySimple
			}
		case "month":
			if len(set) > 3 {
				set = c20MonthSimple
			}
		case "wday":
			set = c20WDaySimple
		}
	}
	var items []c20Item
	if k := lib.VerifParam(name+"_item", -1); k >= 0 {
		items = []c20Item{set[k%len(set)]}
	} else if k := lib.VerifParam(name+"_shard", 0); k > 0 {
		// one item per shard (the date-heavy fields are explored one item per executor)
		items = []c20Item{set[lib.VerifShard(name, len(set))]}
	} else {
		items = []c20Item{set[lib.VerifPick(name, len(set))]}
	}
	if two && items[0].kind != 0 {
		k := lib.VerifPick(name+"2", len(set))
		if set[k].kind != 0 {
			items = append(items, set[k])
		}
	}
	return items
}

// VerifC20Matcher: for a spec of the bounded grammar (parsed by the real cronParseSpec) and a
// symbolic instant between 2000 and 2100 in UTC or a fixed-offset zone, the real
// cronSpecMask.IsRunAt answers exactly what crontab rules prescribe (lists, ranges, steps, L, dL,
// d#n, day-of-month OR day-of-week when both are restricted).
func VerifC20Matcher() {
	focus := lib.VerifParam("focus", -1) // which field gets the rich item set; the others stay simple
	if focus < 0 {
		focus = lib.VerifShard("focus", 5)
	}
	two := lib.VerifParam("lists", 0) == 1
	star := []c20Item{{kind: 0}}
	mi, ho, da, mo, wd := star, star, star, star, star
	switch focus {
	case 0:
		mi = c20Pick("min", c20Min, two)
	case 1:
		ho = c20Pick("hour", c20Hour, two)
	case 2:
		da = c20Pick("day", c20Day, two)
		mo = c20Pick("month", c20Month[:3], false)
	case 3:
		mo = c20Pick("month", c20Month, two)
	case 4:
		wd = c20Pick("wday", c20WDay, two)
		da = c20Pick("day", c20Day[:2], false) // '*' or '1': exercises the OR rule
	}
	spec := c20Field(mi) + " " + c20Field(ho) + " " + c20Field(da) + " " + c20Field(mo) + " " + c20Field(wd)
	mask, err := cronParseSpec(gen.CronJob{Name: "j", Spec: spec})
	lib.VerifAssert(err == nil, "a valid spec is accepted")
	if err != nil {
		return
	}
	sec := lib.VerifInt64("unix")
	loc := time.UTC
	z := lib.VerifPick("zone", lib.VerifParam("zones", 1))
	if z > 0 && lib.VerifParam("dst", 1) == 0 {
		z++ // fixed-offset zones only
	}
	switch z {
	case 1:
		// a zone with daylight-saving transitions
		l, err := time.LoadLocationFromTZData("Europe/Berlin", []byte(c20BerlinTZ))
		lib.VerifAssert(err == nil, "zone data loads")
		loc = l
	case 2:
		loc = time.FixedZone("plus", 5*3600+1800)
	case 3:
		loc = time.FixedZone("minus", -8*3600)
	}
	if w := lib.VerifParam("window", 0); w == 2 {
		// the month is enumerated, the instant inside it is symbolic: this keeps the calendar
		// arithmetic of package time nearly branch-free.
		months := lib.VerifParam("months", 48)
		blocks := lib.VerifParam("blocks", 1)
		per := (months + blocks - 1) / blocks
		blk := 0
		if blocks > 1 {
			nitems := []int{len(c20Min), len(c20Hour), len(c20Day), len(c20Month), len(c20WDay)}[focus]
			blk = lib.VerifShard("raw", 1<<30) / nitems % blocks
		}
		ym := blk*per + lib.VerifPick("yearmonth", per)
		lib.VerifAssume(ym < months)
		// months 0..3 are 2000-02 (leap century), 2100-02 (non-leap century), 2038-01, 1999-12;
		// month k >= 4 is the (k-4)-th month from 2023-01 on
		y, m := 2023+(ym-4)/12, 1+(ym-4)%12
		switch ym {
		case 0:
			y, m = 2000, 2
		case 1:
			y, m = 2100, 2
		case 2:
			y, m = 2038, 1
		case 3:
			y, m = 1999, 12
		}
		// the enumerated month is the civil month in the job's zone
		from := time.Date(y, time.Month(m), 1, 0, 0, 0, 0, loc).Unix()
		to := time.Date(y, time.Month(m+1), 1, 0, 0, 0, 0, loc).Unix()
		lib.VerifAssume(sec >= from && sec < to)
	} else if w == 1 {
		// 2023-01-01 .. 2031-01-01 UTC (two leap years); the full century is the thorough bound
		lib.VerifAssume(sec >= 1672531200 && sec < 1924992000)
	} else {
		lib.VerifAssume(sec >= 946684800 && sec < 4102444800)
	}
	t := time.Unix(sec, 0).In(loc)
	got := mask.IsRunAt(t)

	// civil fields are computed only for the restricted fields (each use of the calendar forks on
	// leap-year and month-boundary cases inside the time package)
	want := 1
	if !c20Wild(mi) {
		want = want & c20Any(mi, t.Minute(), 0, 0, 0)
	}
	if !c20Wild(ho) {
		want = want & c20Any(ho, t.Hour(), 0, 0, 0)
	}
	if !c20Wild(mo) {
		want = want & c20Any(mo, int(t.Month()), 1, 0, 0)
	}
	dayOK, wdOK := 1, 1
	if !c20Wild(da) || !c20Wild(wd) {
		year, month, dom := t.Date()
		dim := c20DaysIn(year, month)
		dow := int(t.Weekday())
		dow = lib.VerifIte(dow == 0, 7, dow)
		dayOK = c20Any(da, dom, 1, dim, dom)
		wdOK = c20Any(wd, dow, 1, dim, dom)
	}
	switch {
	case c20Wild(da) && c20Wild(wd):
	case c20Wild(da):
		want = want & wdOK
	case c20Wild(wd):
		want = want & dayOK
	default:
		want = want & (dayOK | wdOK)
	}
	lib.VerifReach("matched against the reference")
	lib.VerifAssert(b2i(got) == want, "the matcher answers what crontab rules prescribe")
}

// c20Action counts how often a job is run.
type c20Action struct{ runs int }

func (a *c20Action) Do(job gen.Atom, node gen.Node, atime time.Time) error { a.runs++; return nil }
func (a *c20Action) Info() string                                          { return "count" }

// VerifC20Spool: the scheduler's spool for the coming minute after a symbolic history of AddJob /
// EnableJob / DisableJob / RemoveJob calls on two jobs (real createCron on a hand-built node, before
// its first tick): a job is queued for the coming tick exactly once if it exists, is enabled and its
// spec matches that minute (real matcher), and not at all otherwise - so that it fires at the minutes
// its spec denotes, once, and a disabled or removed job does not fire.
func VerifC20Spool() {
	lib.VerifClockAdvance(0)
	n := vfNode()
	c := createCron(n)
	specs := []string{"* * * * *", "0 0 1 1 *", "30 12 * * *", "*/7 * * * *"}
	names := []gen.Atom{"a", "b"}
	type model struct {
		exists, disabled bool
		spec             string
	}
	var m [2]model
	k := lib.VerifParam("ops", 3)
	for i := 0; i < k; i++ {
		j := lib.VerifPick("job", 2)
		switch lib.VerifPick("op", 4) {
		case 0:
			spec := specs[lib.VerifPick("spec", len(specs))]
			err := c.AddJob(gen.CronJob{Name: names[j], Spec: spec, Location: time.UTC, Action: &c20Action{}})
			lib.VerifAssert((err == nil) == !m[j].exists, "AddJob succeeds exactly for a free job name")
			if err == nil {
				m[j] = model{exists: true, spec: spec}
			}
		case 1:
			err := c.EnableJob(names[j])
			lib.VerifAssert((err == nil) == m[j].exists, "EnableJob succeeds exactly for an existing job")
			if err == nil {
				m[j].disabled = false
			}
		case 2:
			err := c.DisableJob(names[j])
			lib.VerifAssert((err == nil) == m[j].exists, "DisableJob succeeds exactly for an existing job")
			if err == nil {
				m[j].disabled = true
			}
		case 3:
			err := c.RemoveJob(names[j])
			lib.VerifAssert((err == nil) == m[j].exists, "RemoveJob succeeds exactly for an existing job")
			if err == nil {
				m[j] = model{}
			}
		}
	}
	next := time.Now().Add(time.Minute).Truncate(time.Minute) // the minute of the coming tick
	info := c.Info()
	for j := range names {
		cnt := 0
		for _, s := range info.Spool {
			if s == names[j] {
				cnt++
			}
		}
		want := 0
		if m[j].exists && !m[j].disabled {
			mask, err := cronParseSpec(gen.CronJob{Name: names[j], Spec: m[j].spec})
			lib.VerifAssert(err == nil, "a valid spec is accepted")
			if err == nil && mask.IsRunAt(next.In(time.UTC)) {
				want = 1
			}
		}
		lib.VerifAssert(cnt <= 1, "a job is queued for the coming minute at most once")
		lib.VerifAssert(cnt >= want, "an enabled job whose spec matches the coming minute is queued for it")
		lib.VerifAssert(cnt == 0 || want == 1, "a job that is disabled, removed or does not match the coming minute is not queued for it")
	}
	c.terminate()
	lib.VerifReach("spool checked")
}

// VerifC20Tick: one minute tick of the real scheduler under a clock that, between any two reads in
// node/cron.go, stands still, advances by 20 s or jumps by 61 s (one path per choice; the native
// replay runs cron.go with its clock and timer calls redirected to the replayed choices). Two jobs
// that match every minute are queued. Whatever the clock does between the reads, the scheduler must
// stay alive: after the tick its timer is armed again and the coming minute has not moved backwards; a job is
// run at most once per tick and only while enabled.
func VerifC20Tick() {
	// between any two reads of the clock it stands still, advances by 20 s or jumps by 61 s
	lib.VerifClockSteps(0, 20000, 61000)
	n := vfNode()
	c := createCron(n)
	a, b := &c20Action{}, &c20Action{}
	lib.VerifAssert(c.AddJob(gen.CronJob{Name: "a", Spec: "* * * * *", Location: time.UTC, Action: a}) == nil, "job added")
	lib.VerifAssert(c.AddJob(gen.CronJob{Name: "b", Spec: "* * * * *", Location: time.UTC, Action: b}) == nil, "job added")
	if lib.VerifPick("disable-b", 2) == 1 {
		lib.VerifAssert(c.DisableJob("b") == nil, "job disabled")
	}
	before := c.next
	fired := lib.VerifFireTimers()
	lib.VerifYield()
	lib.VerifAssert(fired == 1, "the minute timer was pending")
	lib.VerifAssert(lib.VerifTimersArmed() == 1, "after a tick the scheduler's timer is armed again")
	lib.VerifAssert(!c.next.Before(before), "the coming minute never moves backwards")
	lib.VerifAssert(a.runs <= 1 && b.runs <= 1, "a job runs at most once per tick")
	if c.jobs["b"].disable {
		lib.VerifAssert(b.runs == 0, "a disabled job does not run")
	}
	c.terminate()
	lib.VerifReach("tick handled")
}
