//go:build verif

package node

import (
	"time"

	"ergo.services/ergo/gen"
	"ergo.services/ergo/lib"
)

// c20Item is one comma-separated item of a crontab field, in structured form.
type c20Item struct {
	kind    int // 0 '*', 1 'a', 2 'a-b', 3 '*/s', 4 'a-b/s', 5 'L' (day), 6 'dL' (weekday), 7 'd#n' (weekday)
	a, b, s int
}

func c20Itoa(n int) string {
	if n >= 10 {
		return string(rune('0'+n/10)) + string(rune('0'+n%10))
	}
	return string(rune('0' + n))
}

func (it c20Item) String() string {
	switch it.kind {
	case 0:
		return "*"
	case 1:
		return c20Itoa(it.a)
	case 2:
		return c20Itoa(it.a) + "-" + c20Itoa(it.b)
	case 3:
		return "*/" + c20Itoa(it.s)
	case 4:
		return c20Itoa(it.a) + "-" + c20Itoa(it.b) + "/" + c20Itoa(it.s)
	case 5:
		return "L"
	case 6:
		return c20Itoa(it.a) + "L"
	}
	return c20Itoa(it.a) + "#" + c20Itoa(it.b)
}

func c20Field(items []c20Item) string {
	s := ""
	for i, it := range items {
		if i > 0 {
			s += ","
		}
		s += it.String()
	}
	return s
}

func b2i(c bool) int { return lib.VerifIte(c, 1, 0) }

// c20Match: does value v (of a field whose smallest value is min) match the item, by crontab rules
// (1/0, computed without branching so that the reference adds no paths).
// dim = days in this month, dom = day of month (for the weekday forms).
func c20Match(it c20Item, v, min, dim, dom int) int {
	switch it.kind {
	case 0:
		return 1
	case 1:
		return b2i(v == it.a)
	case 2:
		return b2i(v >= it.a) & b2i(v <= it.b)
	case 3:
		return b2i((v-min)%it.s == 0)
	case 4:
		return b2i(v >= it.a) & b2i(v <= it.b) & b2i((v-it.a)%it.s == 0)
	case 5:
		return b2i(v == dim)
	case 6: // last weekday a of the month
		return b2i(v == it.a) & b2i(dom+7 > dim)
	}
	// a#b: b-th weekday a of the month
	return b2i(v == it.a) & b2i((dom-1)/7+1 == it.b)
}

func c20Any(items []c20Item, v, min, dim, dom int) int {
	r := 0
	for _, it := range items {
		r = r | c20Match(it, v, min, dim, dom)
	}
	return r
}

func c20Wild(items []c20Item) bool { return len(items) == 1 && items[0].kind == 0 }

// c20DaysIn without branching on the symbolic year/month.
func c20DaysIn(year int, month time.Month) int {
	m := int(month)
	thirty := b2i(m == 4) | b2i(m == 6) | b2i(m == 9) | b2i(m == 11)
	feb := b2i(m == 2)
	leap := b2i(year%4 == 0) & (b2i(year%100 != 0) | b2i(year%400 == 0))
	return 31 - thirty - feb*(3-leap)
}

// a small set of items per field, chosen to hit the boundaries of each form
var (
	c20Min   = []c20Item{{kind: 0}, {kind: 1, a: 0}, {kind: 1, a: 59}, {kind: 2, a: 10, b: 20}, {kind: 3, s: 15}, {kind: 4, a: 5, b: 55, s: 25}, {kind: 3, s: 7}}
	c20Hour  = []c20Item{{kind: 0}, {kind: 1, a: 0}, {kind: 1, a: 23}, {kind: 2, a: 9, b: 17}, {kind: 3, s: 6}, {kind: 4, a: 1, b: 23, s: 11}}
	c20Day   = []c20Item{{kind: 0}, {kind: 1, a: 1}, {kind: 1, a: 31}, {kind: 2, a: 28, b: 31}, {kind: 3, s: 10}, {kind: 4, a: 1, b: 31, s: 2}, {kind: 5}, {kind: 1, a: 29}}
	c20Month = []c20Item{{kind: 0}, {kind: 1, a: 1}, {kind: 1, a: 12}, {kind: 2, a: 2, b: 4}, {kind: 3, s: 3}, {kind: 1, a: 2}}
	c20WDay  = []c20Item{{kind: 0}, {kind: 1, a: 1}, {kind: 1, a: 7}, {kind: 2, a: 1, b: 5}, {kind: 6, a: 5}, {kind: 6, a: 7}, {kind: 7, a: 1, b: 1}, {kind: 7, a: 3, b: 5}, {kind: 7, a: 7, b: 2}}
)

// simple subsets (plain numbers and ranges) for the quick tier: the L / dL / d#n / step forms of the
// date fields need minutes of solver time per item and are explored in the thorough tier
var (
	c20DaySimple   = []c20Item{{kind: 1, a: 1}, {kind: 1, a: 31}, {kind: 1, a: 29}}
	c20MonthSimple = []c20Item{{kind: 1, a: 1}, {kind: 1, a: 12}, {kind: 2, a: 2, b: 4}}
	c20WDaySimple  = []c20Item{{kind: 1, a: 1}, {kind: 1, a: 7}, {kind: 2, a: 1, b: 5}}
)

func c20Pick(name string, set []c20Item, two bool) []c20Item {
	if lib.VerifParam("simple", 0) == 1 {
		switch name {
		case "day":
			if len(set) > 3 {
				set = c20DaySimple
			}
		case "month":
			if len(set) > 3 {
				set = c20MonthSimple
			}
		case "wday":
			set = c20WDaySimple
		}
	}
	var items []c20Item
	if k := lib.VerifParam(name+"_item", -1); k >= 0 {
		items = []c20Item{set[k%len(set)]}
	} else if k := lib.VerifParam(name+"_shard", 0); k > 0 {
		// one item per shard (the date-heavy fields are explored one item per executor)
		items = []c20Item{set[lib.VerifShard(name, len(set))]}
	} else {
		items = []c20Item{set[lib.VerifPick(name, len(set))]}
	}
	if two && items[0].kind != 0 {
		k := lib.VerifPick(name+"2", len(set))
		if set[k].kind != 0 {
			items = append(items, set[k])
		}
	}
	return items
}

// VerifC20Matcher: for a spec of the bounded grammar (parsed by the real cronParseSpec) and a
// symbolic instant between 2000 and 2100 in UTC or a fixed-offset zone, the real
// cronSpecMask.IsRunAt answers exactly what crontab rules prescribe (lists, ranges, steps, L, dL,
// d#n, day-of-month OR day-of-week when both are restricted).
func VerifC20Matcher() {
	focus := lib.VerifParam("focus", -1) // which field gets the rich item set; the others stay simple
	if focus < 0 {
		focus = lib.VerifShard("focus", 5)
	}
	two := lib.VerifParam("lists", 0) == 1
	star := []c20Item{{kind: 0}}
	mi, ho, da, mo, wd := star, star, star, star, star
	switch focus {
	case 0:
		mi = c20Pick("min", c20Min, two)
	case 1:
		ho = c20Pick("hour", c20Hour, two)
	case 2:
		da = c20Pick("day", c20Day, two)
		mo = c20Pick("month", c20Month[:3], false)
	case 3:
		mo = c20Pick("month", c20Month, two)
	case 4:
		wd = c20Pick("wday", c20WDay, two)
		da = c20Pick("day", c20Day[:2], false) // '*' or '1': exercises the OR rule
	}
	spec := c20Field(mi) + " " + c20Field(ho) + " " + c20Field(da) + " " + c20Field(mo) + " " + c20Field(wd)
	mask, err := cronParseSpec(gen.CronJob{Name: "j", Spec: spec})
	lib.VerifAssert(err == nil, "a valid spec is accepted")
	if err != nil {
		return
	}
	sec := lib.VerifInt64("unix")
	loc := time.UTC
	off := int64(0)
	switch lib.VerifPick("zone", lib.VerifParam("zones", 1)) {
	case 1:
		off = 5*3600 + 1800
		loc = time.FixedZone("plus", int(off))
	case 2:
		off = -8 * 3600
		loc = time.FixedZone("minus", int(off))
	}
	if w := lib.VerifParam("window", 0); w == 2 {
		// the month is enumerated, the instant inside it is symbolic: this keeps the calendar
		// arithmetic of package time nearly branch-free. Months 0..95 are 2023-01 .. 2030-12 (two leap
		// years); 96..99 are 2000-02 (leap century), 2100-02 (non-leap century), 2038-01, 1970-01.
		months := lib.VerifParam("months", 48)
		blocks := lib.VerifParam("blocks", 1)
		per := (months + blocks - 1) / blocks
		blk := 0
		if blocks > 1 {
			nitems := []int{len(c20Min), len(c20Hour), len(c20Day), len(c20Month), len(c20WDay)}[focus]
			blk = lib.VerifShard("raw", 1<<30) / nitems % blocks
		}
		ym := blk*per + lib.VerifPick("yearmonth", per)
		lib.VerifAssume(ym < months)
		y, m := 2023+ym/12, 1+ym%12
		switch ym {
		case 96:
			y, m = 2000, 2
		case 97:
			y, m = 2100, 2
		case 98:
			y, m = 2038, 1
		case 99:
			y, m = 1970, 1
		}
		from := time.Date(y, time.Month(m), 1, 0, 0, 0, 0, time.UTC).Unix()
		to := time.Date(y, time.Month(m+1), 1, 0, 0, 0, 0, time.UTC).Unix()
		// the enumerated month is the civil month in the job's zone
		lib.VerifAssume(sec >= from-off && sec < to-off)
	} else if w == 1 {
		// 2023-01-01 .. 2031-01-01 UTC (two leap years); the full century is the thorough bound
		lib.VerifAssume(sec >= 1672531200 && sec < 1924992000)
	} else {
		lib.VerifAssume(sec >= 946684800 && sec < 4102444800)
	}
	t := time.Unix(sec, 0).In(loc)
	got := mask.IsRunAt(t)

	// civil fields are computed only for the restricted fields (each use of the calendar forks on
	// leap-year and month-boundary cases inside the time package)
	want := 1
	if !c20Wild(mi) {
		want = want & c20Any(mi, t.Minute(), 0, 0, 0)
	}
	if !c20Wild(ho) {
		want = want & c20Any(ho, t.Hour(), 0, 0, 0)
	}
	if !c20Wild(mo) {
		want = want & c20Any(mo, int(t.Month()), 1, 0, 0)
	}
	dayOK, wdOK := 1, 1
	if !c20Wild(da) || !c20Wild(wd) {
		year, month, dom := t.Date()
		dim := c20DaysIn(year, month)
		dow := int(t.Weekday())
		dow = lib.VerifIte(dow == 0, 7, dow)
		dayOK = c20Any(da, dom, 1, dim, dom)
		wdOK = c20Any(wd, dow, 1, dim, dom)
	}
	switch {
	case c20Wild(da) && c20Wild(wd):
	case c20Wild(da):
		want = want & wdOK
	case c20Wild(wd):
		want = want & dayOK
	default:
		want = want & (dayOK | wdOK)
	}
	lib.VerifReach("matched against the reference")
	lib.VerifAssert(b2i(got) == want, "the matcher answers what crontab rules prescribe")
}
