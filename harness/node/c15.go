//go:build verif

package node

import (
	"io"
	"net"

	"ergo.services/ergo/gen"
	"ergo.services/ergo/lib"
)

func vfFactory() gen.ProcessBehavior { return &vfBehavior{} }

// VerifC15Tables: a symbolic history of Enable/Disable calls on the remote-spawn table (shard 0)
// or the remote-application-start table (shard 1) with symbolic node lists, then the permission
// query for every (name, peer). Safety direction only: whatever is allowed must be justified by an
// Enable covering that peer (explicitly or by the empty "everyone" list) that no later Disable
// covering that peer revoked.
func VerifC15Tables() {
	table := lib.VerifShard("table", 2)
	k := lib.VerifParam("ops", 3)
	nnames := lib.VerifParam("names", 1)
	lib.VerifClockAdvance(0)
	n := vfNode()
	nw := n.network
	names := []gen.Atom{"worker", "other"}
	peers := []gen.Atom{"x@h", "y@h", "z@h"}
	lists := [][]gen.Atom{nil, {"x@h"}, {"y@h"}, {"x@h", "y@h"}}
	var lastEnable, lastDisable [2][3]int
	for i := 1; i <= k; i++ {
		enable := lib.VerifPick("enable", 2) == 1
		nm := 0
		if nnames > 1 {
			nm = lib.VerifPick("name", nnames)
		}
		l := lists[lib.VerifPick("nodes", 4)]
		var err error
		switch {
		case table == 0 && enable:
			err = nw.EnableSpawn(names[nm], vfFactory, l...)
		case table == 0:
			err = nw.DisableSpawn(names[nm], l...)
		case enable:
			err = nw.EnableApplicationStart(names[nm], l...)
		default:
			err = nw.DisableApplicationStart(names[nm], l...)
		}
		if err != nil {
			continue
		}
		for p := range peers {
			covered := len(l) == 0
			for _, x := range l {
				covered = covered || x == peers[p]
			}
			if !covered {
				continue
			}
			if enable {
				lastEnable[nm][p] = i
			} else {
				lastDisable[nm][p] = i
			}
		}
	}
	for nm := 0; nm < nnames; nm++ {
		for p := range peers {
			var err error
			if table == 0 {
				_, err = nw.getEnabledSpawn(names[nm], peers[p])
			} else {
				err = nw.isEnabledApplicationStart(names[nm], peers[p])
			}
			if err == nil {
				lib.VerifAssert(lastEnable[nm][p] > lastDisable[nm][p], "a peer is allowed only under an Enable that no later Disable for that peer revoked")
				lib.VerifReach("allowed and justified")
			} else {
				lib.VerifAssert(err == gen.ErrNameUnknown || err == gen.ErrNotAllowed, "refusals use the documented errors")
			}
		}
	}
}

type vfHandshake struct{ gen.NetworkHandshake }

func (vfHandshake) Version() gen.Version { return gen.Version{Name: "vfhs", Release: "1"} }

type vfProto struct{ gen.NetworkProto }

func (vfProto) Version() gen.Version { return gen.Version{Name: "vfproto", Release: "1"} }

type vfListener struct{ closed bool }

func (l *vfListener) Accept() (net.Conn, error) { return nil, io.EOF }
func (l *vfListener) Close() error              { l.closed = true; return nil }
func (l *vfListener) Addr() net.Addr            { return &net.TCPAddr{} }

// VerifC15AcceptorCookie: the cookie an acceptor will demand from incoming peers is its own cookie
// when one is configured, otherwise the node's (real startAcceptor; the listener is the environment).
func VerifC15AcceptorCookie() {
	lib.VerifClockAdvance(0)
	n := vfNode()
	n.network.cookie = "node-cookie"
	own := lib.VerifPick("own", 2) == 1
	opts := gen.AcceptorOptions{Host: "127.0.0.1", Port: 27411, PortRange: 27511, TCP: "tcp4", Handshake: vfHandshake{}, Proto: vfProto{},
		MaxMessageSize: 1234}
	want := n.network.cookie
	if own {
		opts.Cookie = "acceptor-cookie"
		want = opts.Cookie
	}
	lib.VerifProvide("net.Listener", &vfListener{})
	acc, err := n.network.startAcceptor(opts)
	lib.VerifAssert(err == nil && acc != nil, "acceptor started")
	if err != nil || acc == nil {
		return
	}
	effective := acc.cookie
	if effective == "" {
		effective = n.network.cookie // what accept() falls back to
	}
	lib.VerifAssert(effective == want, "an acceptor with its own cookie demands that cookie, otherwise the node's")
	lib.VerifAssert(acc.max_message_size == 1234, "the acceptor's message size limit is the configured one")
	lib.VerifAssert(acc.flags.Enable, "acceptor flags default to the node defaults when not set")
	acc.l.Close()
	lib.VerifReach("acceptor checked")
}
