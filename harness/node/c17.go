//go:build verif

package node

import (
	"ergo.services/ergo/gen"
	"ergo.services/ergo/lib"
)

type vfApp struct {
	starts    int
	terms     int
	termArg   error
	startMode gen.ApplicationMode
}

func (a *vfApp) Load(node gen.Node, args ...any) (gen.ApplicationSpec, error) {
	return gen.ApplicationSpec{}, nil
}
func (a *vfApp) Start(mode gen.ApplicationMode) { a.starts++; a.startMode = mode }
func (a *vfApp) Terminate(reason error)         { a.terms++; a.termArg = reason }

// vfMember is a well-behaved application member: it terminates when it receives an exit signal,
// with the signal's reason.
type vfMember struct {
	proc  gen.Process
	init  error
	terms int
	order *[]gen.PID
}

func (m *vfMember) ProcessInit(process gen.Process, args ...any) error {
	m.proc = process
	if m.init == nil && m.order != nil {
		*m.order = append(*m.order, process.PID())
	}
	return m.init
}
func (m *vfMember) ProcessRun() error {
	mb := m.proc.Mailbox()
	for {
		v, ok := mb.Urgent.Pop()
		if !ok {
			return nil
		}
		msg := v.(*gen.MailboxMessage)
		if msg.Type == gen.MailboxMessageTypeExit {
			if x, ok := msg.Message.(gen.MessageExitPID); ok {
				return x.Reason
			}
		}
	}
}
func (m *vfMember) ProcessTerminate(reason error) { m.terms++ }

func c17Reason(k int) error {
	switch k {
	case 0:
		return gen.TerminateReasonNormal
	case 1:
		return gen.TerminateReasonShutdown
	}
	return errVfReason
}

// VerifC17Lifecycle: real application start/stop/terminate with real spawn, Kill, SendExit,
// process runner and unregisterProcess on a hand-built node; members are well-behaved fakes.
// Symbolic: mode (shard), which member fails to start, a history of member terminations,
// stop / force-stop requests and restarts.
func VerifC17Lifecycle() {
	mode := gen.ApplicationMode(lib.VerifShard("mode", 3) + 1)
	nm := lib.VerifParam("members", 2)
	h := lib.VerifParam("events", 2)
	lib.VerifClockAdvance(0) // time is not the subject here: concrete clock
	n := vfNode()
	fa := &vfApp{}
	var order []gen.PID
	failAt := lib.VerifPick("failAt", nm+1) - 1 // -1: every member starts
	failKind := 0
	if failAt >= 0 {
		failKind = lib.VerifPick("failKind", 2)
	}
	var members []*vfMember
	app := &application{node: n, behavior: fa, state: int32(gen.ApplicationStateLoaded)}
	app.spec.Name = "app"
	app.spec.Mode = mode // what ApplicationLoad records from the spec
	app.mode = mode
	// a dependency that must be running before the application's own members are started
	fdep := &vfApp{}
	dep := &application{node: n, behavior: fdep, state: int32(gen.ApplicationStateLoaded)}
	dep.spec.Name = "dep"
	dep.spec.Mode = gen.ApplicationModeTemporary
	dep.mode = gen.ApplicationModeTemporary
	depStartedFirst := true
	dep.spec.Group = []gen.ApplicationMemberSpec{{Name: "d0", Factory: func() gen.ProcessBehavior { return &vfMember{} }}}
	n.applications.Store(dep.spec.Name, dep)
	app.spec.Depends.Applications = []gen.Atom{"dep"}
	names := []gen.Atom{"m0", "m1", "m2"}
	for i := 0; i < nm; i++ {
		i := i
		app.spec.Group = append(app.spec.Group, gen.ApplicationMemberSpec{
			Name: names[i],
			Factory: func() gen.ProcessBehavior {
				if i == failAt && failKind == 0 {
					return nil
				}
				m := &vfMember{order: &order}
				if fdep.starts == 0 {
					depStartedFirst = false
				}
				if i == failAt {
					m.init = errVfReason
				}
				members = append(members, m)
				return m
			},
		})
	}
	n.applications.Store(app.spec.Name, app)
	opts := gen.ApplicationOptions{}
	appProcs := func() int {
		cnt := 0
		n.processes.Range(func(_, v any) bool {
			if v.(*process).application == "app" {
				cnt++
			}
			return true
		})
		return cnt
	}

	err := n.ApplicationStart("app", opts)
	if failAt >= 0 {
		lib.VerifAssert(err != nil, "start fails when a member cannot be started")
		lib.VerifYield()
		lib.VerifAssert(appProcs() == 0, "a failed start leaves no member running")
		lib.VerifAssert(app.state == int32(gen.ApplicationStateLoaded), "a failed start leaves the application loaded")
		lib.VerifAssert(fa.starts == 0, "start callback does not run on a failed start")
		lib.VerifReach("failed start checked")
		// it can be started again (and fails the same way, or succeeds once the member is fine)
		failAt = -1
		members = nil
		order = nil
		err = n.ApplicationStart("app", opts)
	}
	lib.VerifAssert(err == nil, "start succeeds")
	lib.VerifAssert(depStartedFirst && fdep.starts == 1, "dependencies are started first")
	// whether a failed start invokes the terminate callback is not specified: count from here
	termsBase := fa.terms
	startsBase := 0
	lib.VerifAssert(fa.starts-startsBase == 1 && fa.startMode == mode, "start callback runs exactly once")
	lib.VerifAssert(len(order) == nm, "every member is started")
	for i := 0; i < nm; i++ {
		v, ok := n.names.Load(names[i])
		lib.VerifAssert(ok && v.(*process).pid == order[i], "members are started in spec order")
	}

	if lib.VerifPick("idle", 2) == 1 {
		lib.VerifYield() // members have handled their start-up and sleep
	}
	runs := 1
	reasonChecked := false
	stopAsked := false
	var causes []error
	for ev := 0; ev < h; ev++ {
		switch lib.VerifPick("event", 4) {
		case 0: // a member terminates on its own
			var live []*process
			n.processes.Range(func(_, v any) bool {
				if v.(*process).application == "app" {
					live = append(live, v.(*process))
				}
				return true
			})
			if len(live) == 0 {
				continue
			}
			p := live[lib.VerifPick("member", len(live))]
			reason := c17Reason(lib.VerifPick("reason", 3))
			causes = append(causes, reason)
			wasRunning := app.state == int32(gen.ApplicationStateRunning)
			left := len(live) - 1
			old := p.state
			p.state = int32(gen.ProcessStateTerminated)
			if old != int32(gen.ProcessStateTerminated) {
				n.unregisterProcess(p, reason)
			}
			lib.VerifYield()
			abnormal := reason == errVfReason
			mustStop := wasRunning && (mode == gen.ApplicationModePermanent || (mode == gen.ApplicationModeTransient && abnormal) || left == 0)
			if mustStop {
				lib.VerifAssert(appProcs() == 0, "when the application stops every member is terminated")
				lib.VerifAssert(app.state == int32(gen.ApplicationStateLoaded), "a stopped application is back in the loaded state")
				lib.VerifAssert(fa.terms-termsBase == runs, "terminate callback runs exactly once per run")
				lib.VerifReach("stopped by member termination")
			} else if wasRunning {
				lib.VerifAssert(app.state == int32(gen.ApplicationStateRunning) && fa.terms-termsBase == runs-1, "the application keeps running when its mode does not ask for a stop")
				lib.VerifReach("kept running")
			}
		case 1, 2: // stop request (graceful / forced)
			force := lib.VerifParam("force", 1) == 1 && lib.VerifPick("force", 2) == 1
			wasRunning := app.state == int32(gen.ApplicationStateRunning)
			if wasRunning {
				stopAsked = true
				if force {
					causes = append(causes, gen.TerminateReasonKill)
				} else {
					causes = append(causes, gen.TerminateReasonShutdown)
				}
			}
			var err error
			if force {
				err = n.ApplicationStopForce("app")
			} else {
				err = n.ApplicationStop("app")
			}
			lib.VerifYield()
			if err == nil {
				lib.VerifAssert(appProcs() == 0 && app.group.Len() == 0, "stop reports success only when every member is gone")
				lib.VerifAssert(app.state == int32(gen.ApplicationStateLoaded), "after a successful stop the application is loaded")
			}
			if wasRunning && !force {
				lib.VerifAssert(err == nil, "stopping a running application with well-behaved members succeeds")
			}
			if wasRunning {
				lib.VerifAssert(app.state == int32(gen.ApplicationStateLoaded), "after a stop request and the members' exit the application is loaded")
				lib.VerifAssert(fa.terms-termsBase == runs, "terminate callback runs exactly once per run")
				lib.VerifReach("stopped on request")
			}
		case 3: // start again
			if app.state != int32(gen.ApplicationStateLoaded) {
				continue
			}
			if fa.terms-termsBase == runs && !reasonChecked {
				// previous run ended: check the reason it was given
				c17CheckReason(fa.termArg, causes, stopAsked)
				reasonChecked = true
			}
			members = nil
			order = nil
			causes = nil
			stopAsked = false
			if lib.VerifParam("refail", 1) == 1 {
				// this start may fail as well (a member that cannot be started this time)
				failAt = lib.VerifPick("refailAt", nm+1) - 1
				if failAt >= 0 {
					failKind = 1
					termsBefore := fa.terms
					err := n.ApplicationStart("app", opts)
					lib.VerifYield()
					lib.VerifAssert(err != nil, "start fails when a member cannot be started")
					lib.VerifAssert(appProcs() == 0, "a failed start leaves no member running")
					lib.VerifAssert(app.state == int32(gen.ApplicationStateLoaded), "a failed start leaves the application loaded")
					lib.VerifAssert(fa.starts-startsBase == runs, "start callback does not run on a failed start")
					// whether a failed start invokes the terminate callback is not specified
					termsBase += fa.terms - termsBefore
					failAt = -1
					reasonChecked = true // the previous run's reason was checked above; this start never ran
					lib.VerifReach("failed restart checked")
					continue
				}
			}
			err := n.ApplicationStart("app", opts)
			lib.VerifAssert(err == nil, "a stopped application can be started again")
			lib.VerifAssert(fa.startMode == mode, "a restart uses the mode of the application's spec")
			if lib.VerifPick("idle", 2) == 1 {
				lib.VerifYield()
			}
			runs++
			reasonChecked = false
			lib.VerifAssert(fa.starts-startsBase == runs, "start callback runs once per start")
			lib.VerifReach("restarted")
		}
	}
	if fa.terms-termsBase == runs && !reasonChecked {
		c17CheckReason(fa.termArg, causes, stopAsked)
	}
	lib.VerifAssert(fa.terms-termsBase <= runs, "terminate callback never runs more often than the application was started")
}

// c17CheckReason: the reason given to Terminate is one of the things that happened in this run.
func c17CheckReason(got error, causes []error, stopAsked bool) {
	ok := got == gen.TerminateReasonNormal
	for _, c := range causes {
		ok = ok || got == c
	}
	lib.VerifAssert(ok, "terminate callback gets a reason that occurred in this run")
}
