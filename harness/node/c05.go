//go:build verif

package node

import (
	"ergo.services/ergo/gen"
	"ergo.services/ergo/lib"
)

// c05Beh ends in the way the harness chose: its handler returns an error, or panics.
type c05Beh struct {
	p       *process
	how     int // 0..2 handler returns normal/shutdown/custom error, 3 handler panics, 4 never ends by itself
	runs    int
	terms   int
	reason  error
	afterT  int // activations after the terminate callback
	termsIn int // terminate callback entered while a handler was active
	active  bool
}

func (b *c05Beh) ProcessInit(process gen.Process, args ...any) error { return nil }
func (b *c05Beh) ProcessRun() error {
	if b.terms > 0 {
		b.afterT++
	}
	b.active = true
	defer func() { b.active = false }()
	b.runs++
	for {
		if _, ok := b.p.mailbox.Main.Pop(); !ok {
			break
		}
	}
	switch b.how {
	case 0:
		return gen.TerminateReasonNormal
	case 1:
		return gen.TerminateReasonShutdown
	case 2:
		return errVfReason
	case 3:
		panic("handler panics")
	}
	return nil
}
func (b *c05Beh) ProcessTerminate(reason error) {
	if b.active {
		b.termsIn++
	}
	b.terms++
	b.reason = reason
}

// VerifC05NodeReasons: the node-level half of C05, sequentially: a process ends because its handler
// returns an error (normal / shutdown / custom), because its handler panics (real recover path of
// process.run), or because node.Kill hits it while it sleeps. The terminate callback runs exactly once
// with the reason that reflects the cause, nothing of the process runs afterwards, the process is
// gone from the node, and a linked and a monitoring process are each told the same reason.
func VerifC05NodeReasons() {
	lib.VerifClockAdvance(0)
	n := vfNode()
	p, _ := vfProc(n, 2000, "", gen.ProcessStateSleep, 0)
	b := &c05Beh{p: p, how: lib.VerifPick("how", 5)}
	p.behavior = b
	linker, _ := vfProc(n, 2001, "", gen.ProcessStateRunning, 0)
	watcher, _ := vfProc(n, 2002, "", gen.ProcessStateRunning, 0)
	lib.VerifAssert(linker.LinkPID(p.pid) == nil && watcher.MonitorPID(p.pid) == nil, "relations created")
	var want error
	switch b.how {
	case 0:
		want = gen.TerminateReasonNormal
	case 1:
		want = gen.TerminateReasonShutdown
	case 2:
		want = errVfReason
	case 3:
		want = gen.TerminateReasonPanic
	case 4:
		want = gen.TerminateReasonKill
	}
	if b.how == 4 {
		lib.VerifAssert(n.Kill(p.pid) == nil, "kill accepted")
	} else {
		p.mailbox.Main.Push(gen.TakeMailboxMessage())
		p.run()
	}
	lib.VerifYield()
	// further traffic must not bring it back
	sendErr := n.RouteSendPID(linker.pid, p.pid, gen.MessageOptions{}, "late")
	lib.VerifYield()
	lib.VerifAssert(sendErr != nil, "a terminated process accepts no message")
	lib.VerifAssert(b.terms == 1, "the terminate callback runs exactly once")
	lib.VerifAssert(b.reason == want, "the terminate callback gets the reason that reflects the cause")
	lib.VerifAssert(b.afterT == 0 && b.termsIn == 0, "the terminate callback runs after the last other callback and nothing runs afterwards")
	_, still := n.processes.Load(p.pid)
	lib.VerifAssert(!still && p.state == int32(gen.ProcessStateTerminated), "the process is gone from the node")
	exits, downs := 0, 0
	for _, m := range vfDrain(linker.mailbox.Urgent) {
		if x, ok := m.Message.(gen.MessageExitPID); ok && x.PID == p.pid {
			exits++
			lib.VerifAssert(x.Reason == want, "the linked process is told the reason that reflects the cause")
		}
	}
	for _, m := range vfDrain(watcher.mailbox.System) {
		if x, ok := m.Message.(gen.MessageDownPID); ok && x.PID == p.pid {
			downs++
			lib.VerifAssert(x.Reason == want, "the monitoring process is told the reason that reflects the cause")
		}
	}
	lib.VerifAssert(exits == 1 && downs == 1, "one exit signal to the linked process, one down message to the monitoring one")
	lib.VerifReach("termination checked")
}
