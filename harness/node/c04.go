//go:build verif

package node

import (
	"errors"

	"ergo.services/ergo/gen"
	"ergo.services/ergo/lib"
)

var errVfReason = errors.New("boom")

type c04World struct {
	n      *node
	t      *process
	cons   [2]*process
	alias  gen.Alias
	event  gen.Event
	name   gen.Atom
	linked [2][4]bool
	mon    [2][4]bool
}

func c04Setup() *c04World {
	w := &c04World{}
	w.n = vfNode()
	w.name = "target"
	w.t, _ = vfProc(w.n, 2000, w.name, gen.ProcessStateRunning, 0)
	a, err := w.t.CreateAlias()
	lib.VerifAssert(err == nil, "setup: alias created")
	w.alias = a
	_, err = w.t.RegisterEvent("ev", gen.EventOptions{})
	lib.VerifAssert(err == nil, "setup: event registered")
	w.event = gen.Event{Name: "ev", Node: w.n.name}
	w.cons[0], _ = vfProc(w.n, 2001, "", gen.ProcessStateRunning, 0)
	w.cons[1], _ = vfProc(w.n, 2002, "", gen.ProcessStateRunning, 0)
	return w
}

func (w *c04World) target(kind int) any {
	switch kind {
	case 0:
		return w.t.pid
	case 1:
		return gen.ProcessID{Name: w.name, Node: w.n.name}
	case 2:
		return w.alias
	}
	return w.event
}

// op performs one link/unlink/monitor/demonitor request through the process API.
func (w *c04World) op(c, what, kind int) error {
	p := w.cons[c]
	var err error
	if kind == 3 {
		switch what {
		case 0:
			_, err = p.LinkEvent(w.event)
		case 1:
			err = p.UnlinkEvent(w.event)
		case 2:
			_, err = p.MonitorEvent(w.event)
		default:
			err = p.DemonitorEvent(w.event)
		}
	} else {
		switch what {
		case 0:
			err = p.Link(w.target(kind))
		case 1:
			err = p.Unlink(w.target(kind))
		case 2:
			err = p.Monitor(w.target(kind))
		default:
			err = p.Demonitor(w.target(kind))
		}
	}
	if err == nil {
		switch what {
		case 0:
			w.linked[c][kind] = true
		case 1:
			w.linked[c][kind] = false
		case 2:
			w.mon[c][kind] = true
		default:
			w.mon[c][kind] = false
		}
	}
	return err
}

func c04ExitKind(m any) (int, error, bool) {
	switch x := m.(type) {
	case gen.MessageExitPID:
		return 0, x.Reason, true
	case gen.MessageExitProcessID:
		return 1, x.Reason, true
	case gen.MessageExitAlias:
		return 2, x.Reason, true
	case gen.MessageExitEvent:
		return 3, x.Reason, true
	}
	return -1, nil, false
}

func c04DownKind(m any) (int, error, bool) {
	switch x := m.(type) {
	case gen.MessageDownPID:
		return 0, x.Reason, true
	case gen.MessageDownProcessID:
		return 1, x.Reason, true
	case gen.MessageDownAlias:
		return 2, x.Reason, true
	case gen.MessageDownEvent:
		return 3, x.Reason, true
	}
	return -1, nil, false
}

// VerifC04History: a symbolic history of link/unlink/monitor/demonitor requests by two consumers
// on one target (addressed by pid, registered name, alias or event), then the target goes away
// (process termination, or the name/alias/event alone is unregistered). Each consumer must find
// exactly one exit (link) or down (monitor) message per relation it still holds, naming the target
// and carrying the reason; nothing otherwise.
func VerifC04History() {
	kind := lib.VerifShard("kind", 4)
	k := lib.VerifParam("ops", 3)
	mix := lib.VerifParam("mix", 0)
	w := c04Setup()
	for i := 0; i < k; i++ {
		c := lib.VerifPick("consumer", 2)
		what := lib.VerifPick("op", 4)
		kd := kind
		if mix == 1 && lib.VerifPick("other", 2) == 1 {
			kd = (kind + 1) % 4
		}
		err := w.op(c, what, kd)
		// a request is refused only for a reason the API documents
		if err != nil {
			lib.VerifAssert(err == gen.ErrTargetExist || err == gen.ErrTargetUnknown, "requests on a live target fail only with exist/unknown-relation errors")
		}
	}
	if (kind == 2 || (mix == 1 && kind == 1)) && lib.VerifPick("sibling-alias", 2) == 1 {
		// the owner creates and deletes another alias in the meantime: the one under observation
		// (older, at the front of the owner's list) must be unaffected
		a2, err := w.t.CreateAlias()
		lib.VerifAssert(err == nil, "second alias created")
		lib.VerifAssert(w.t.DeleteAlias(a2) == nil, "second alias deleted")
	}
	// the target goes away
	cause := lib.VerifPick("cause", 2)
	var gone [4]bool
	var reason error
	if cause == 0 {
		reason = errVfReason
		w.t.state = int32(gen.ProcessStateTerminated)
		w.n.unregisterProcess(w.t, reason)
		gone = [4]bool{true, true, true, true}
	} else {
		reason = gen.ErrUnregistered
		switch kind {
		case 0:
			reason = gen.TerminateReasonKill
			w.t.state = int32(gen.ProcessStateTerminated)
			w.n.unregisterProcess(w.t, reason)
			gone = [4]bool{true, true, true, true}
		case 1:
			err := w.t.UnregisterName()
			lib.VerifAssert(err == nil, "name unregistered")
			gone[1] = true
		case 2:
			err := w.t.DeleteAlias(w.alias)
			lib.VerifAssert(err == nil, "alias deleted")
			gone[2] = true
		case 3:
			err := w.t.UnregisterEvent("ev")
			lib.VerifAssert(err == nil, "event unregistered")
			gone[3] = true
		}
	}
	lib.VerifReach("target gone")
	for c := 0; c < 2; c++ {
		var exits, downs [4]int
		for _, m := range vfDrain(w.cons[c].mailbox.Urgent) {
			lib.VerifAssert(m.Type == gen.MailboxMessageTypeExit, "urgent queue holds only exit signals")
			kd, r, ok := c04ExitKind(m.Message)
			lib.VerifAssert(ok, "exit signal has a known type")
			if ok {
				exits[kd]++
				lib.VerifAssert(r == reason, "exit signal carries the reason")
			}
		}
		for _, m := range vfDrain(w.cons[c].mailbox.System) {
			kd, r, ok := c04DownKind(m.Message)
			lib.VerifAssert(ok && m.Type == gen.MailboxMessageTypeRegular, "system queue holds only down messages")
			if ok {
				downs[kd]++
				lib.VerifAssert(r == reason, "down message carries the reason")
			}
		}
		lib.VerifAssert(w.cons[c].mailbox.Main.Item() == nil, "nothing arrives in the main queue")
		for kd := 0; kd < 4; kd++ {
			wantExit, wantDown := 0, 0
			if gone[kd] && w.linked[c][kd] {
				wantExit = 1
			}
			if gone[kd] && w.mon[c][kd] {
				wantDown = 1
			}
			lib.VerifAssert(exits[kd] == wantExit, "exactly one exit signal per link held on a target that went away, none otherwise")
			lib.VerifAssert(downs[kd] == wantDown, "exactly one down message per monitor held on a target that went away, none otherwise")
		}
	}
	// relations on what is gone are removed; a later disappearance notifies nobody again
	for kd := 0; kd < 4; kd++ {
		if gone[kd] {
			lib.VerifAssert(len(w.n.targetManager.GetConsumersForTarget(w.target(kd))) == 0, "no relation is left on a target that went away")
		}
	}
}
