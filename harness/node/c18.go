//go:build verif

package node

import (
	"ergo.services/ergo/gen"
	"ergo.services/ergo/lib"
)

// VerifC18Events: one producer (holding the token), one stranger, two consumers; a symbolic
// history of publish / link / unlink / monitor / demonitor, then the event goes away. Real
// process API, real RouteSendEvent/Route*Event, target manager and the flush buffer.
func VerifC18Events() {
	buffer := lib.VerifShard("buffer", 3)
	notify := lib.VerifParam("notify", 1) == 1 && lib.VerifPick("notify", 2) == 1
	k := lib.VerifParam("ops", 3)
	both := lib.VerifParam("both", 0) == 1 // allow a consumer to link AND monitor the same event
	lib.VerifClockAdvance(0)
	n := vfNode()
	prod, _ := vfProc(n, 2000, "", gen.ProcessStateRunning, 0)
	stranger, _ := vfProc(n, 2003, "", gen.ProcessStateRunning, 0)
	cons := [2]*process{}
	cons[0], _ = vfProc(n, 2001, "", gen.ProcessStateRunning, 0)
	cons[1], _ = vfProc(n, 2002, "", gen.ProcessStateRunning, 0)
	token, err := prod.RegisterEvent("ev", gen.EventOptions{Notify: notify, Buffer: buffer})
	lib.VerifAssert(err == nil, "event registered")
	ev := gen.Event{Name: "ev", Node: n.name}

	var published []int // payloads accepted so far
	var want [2][]int   // what each consumer must find in its mailbox
	var linked, mon [2]bool
	subs := 0
	starts, stops := 0, 0
	seq := 0
	for i := 0; i < k; i++ {
		switch lib.VerifPick("op", 6) {
		case 0: // publish with the token
			seq++
			err := prod.SendEvent("ev", token, seq)
			lib.VerifAssert(err == nil, "the token holder can publish")
			published = append(published, seq)
			for c := 0; c < 2; c++ {
				if linked[c] || mon[c] {
					want[c] = append(want[c], seq)
				}
			}
		case 1: // publish without the token
			if stranger.state == int32(gen.ProcessStateTerminated) {
				continue
			}
			bad := token
			bad.ID[0]++
			err := stranger.SendEvent("ev", bad, 999)
			lib.VerifAssert(err == gen.ErrEventOwner, "publishing without the registration token is refused")
		case 2: // subscribe (link / monitor)
			c := lib.VerifPick("consumer", 2)
			asLink := lib.VerifPick("kind", 2) == 0
			if !both && (linked[c] || mon[c]) {
				continue
			}
			var last []gen.MessageEvent
			var err error
			if asLink {
				last, err = cons[c].LinkEvent(ev)
			} else {
				last, err = cons[c].MonitorEvent(ev)
			}
			already := (asLink && linked[c]) || (!asLink && mon[c])
			lib.VerifAssert((err == nil) == !already, "a subscription succeeds unless it already exists")
			if err != nil {
				continue
			}
			// the last N publications, in order
			nb := len(published)
			if nb > buffer {
				nb = buffer
			}
			lib.VerifAssert(len(last) == nb, "a new subscriber is handed the last N buffered messages")
			for j := 0; j < len(last) && j < nb; j++ {
				lib.VerifAssert(last[j].Message == published[len(published)-nb+j], "buffered messages come in publication order")
			}
			if asLink {
				linked[c] = true
			} else {
				mon[c] = true
			}
			subs++
			if subs == 1 && notify {
				starts++
			}
		case 4: // somebody else tries to register the same event name
			if stranger.state == int32(gen.ProcessStateTerminated) {
				continue
			}
			_, err := stranger.RegisterEvent("ev", gen.EventOptions{})
			lib.VerifAssert(err == gen.ErrTaken, "a second registration of the event name is refused")
		case 5: // ... and terminates (once): the owner's event must not be affected
			if stranger.state != int32(gen.ProcessStateTerminated) {
				stranger.state = int32(gen.ProcessStateTerminated)
				n.unregisterProcess(stranger, errVfReason)
				_, still := n.events.Load(ev)
				lib.VerifAssert(still, "the termination of a process that does not own the event leaves it registered")
			}
		case 3: // unsubscribe
			c := lib.VerifPick("consumer", 2)
			asLink := lib.VerifPick("kind", 2) == 0
			var err error
			if asLink {
				err = cons[c].UnlinkEvent(ev)
			} else {
				err = cons[c].DemonitorEvent(ev)
			}
			had := (asLink && linked[c]) || (!asLink && mon[c])
			lib.VerifAssert((err == nil) == had, "unsubscribing succeeds exactly when subscribed")
			if err != nil {
				continue
			}
			if asLink {
				linked[c] = false
			} else {
				mon[c] = false
			}
			subs--
			if subs == 0 && notify {
				stops++
			}
		}
	}
	// producer notifications
	gotStart, gotStop := 0, 0
	for _, m := range vfDrain(prod.mailbox.System) {
		switch m.Message.(type) {
		case gen.MessageEventStart:
			gotStart++
		case gen.MessageEventStop:
			gotStop++
		}
	}
	lib.VerifAssert(gotStart == starts, "producer is told when the first subscriber arrives (and only then)")
	lib.VerifAssert(gotStop == stops, "producer is told when the last subscriber unsubscribes (and only then)")

	// the event goes away
	cause := lib.VerifPick("cause", 2)
	reason := gen.ErrUnregistered
	if cause == 0 {
		lib.VerifAssert(prod.UnregisterEvent("ev") == nil, "owner can unregister")
	} else {
		reason = errVfReason
		prod.state = int32(gen.ProcessStateTerminated)
		n.unregisterProcess(prod, reason)
	}
	for c := 0; c < 2; c++ {
		var got []int
		for _, m := range vfDrain(cons[c].mailbox.Main) {
			lib.VerifAssert(m.Type == gen.MailboxMessageTypeEvent, "main queue holds event messages only")
			me := m.Message.(gen.MessageEvent)
			lib.VerifAssert(me.Event == ev, "event message names the event")
			got = append(got, me.Message.(int))
		}
		lib.VerifAssert(len(got) == len(want[c]), "each subscriber receives each publication made while subscribed exactly once")
		for j := 0; j < len(got) && j < len(want[c]); j++ {
			lib.VerifAssert(got[j] == want[c][j], "publications arrive in publication order")
		}
		exits, downs := 0, 0
		for _, m := range vfDrain(cons[c].mailbox.Urgent) {
			if x, ok := m.Message.(gen.MessageExitEvent); ok && x.Event == ev && x.Reason == reason {
				exits++
			}
		}
		for _, m := range vfDrain(cons[c].mailbox.System) {
			if x, ok := m.Message.(gen.MessageDownEvent); ok && x.Event == ev && x.Reason == reason {
				downs++
			}
		}
		wantExit, wantDown := 0, 0
		if linked[c] {
			wantExit = 1
		}
		if mon[c] {
			wantDown = 1
		}
		lib.VerifAssert(exits == wantExit && downs == wantDown, "one exit per link and one down per monitor when the event goes away")
	}
	lib.VerifReach("event history checked")
}

// c18WindowTM wraps the node's target manager: the first time the publisher asks for the
// subscribers of the event, a new subscription is carried out right there - i.e. in the window between
// the publisher's push into the event buffer and its reading of the subscriber list.
type c18WindowTM struct {
	gen.TargetManager
	cons    *process
	ev      gen.Event
	asLink  bool
	started bool
	done    bool
	last    []gen.MessageEvent
	err     error
}

func (t *c18WindowTM) GetConsumersForTarget(target any) []gen.PID {
	if !t.started && target == any(t.ev) {
		t.started = true
		// another goroutine subscribes now; it runs until it finishes or has to wait for the publisher
		go func() {
			if t.asLink {
				t.last, t.err = t.cons.LinkEvent(t.ev)
			} else {
				t.last, t.err = t.cons.MonitorEvent(t.ev)
			}
			t.done = true
		}()
		lib.VerifYield()
	}
	return t.TargetManager.GetConsumersForTarget(target)
}

// VerifC18Window: a subscription (link or monitor) that completes while a publication is under way -
// after the message has been put into the event's buffer and before the publisher reads the subscriber
// list - taken sequentially. The new subscriber must see that message exactly once: either handed over
// with the buffered messages or delivered to its mailbox, not both.
func VerifC18Window() {
	lib.VerifClockAdvance(0)
	n := vfNode()
	prod, _ := vfProc(n, 2000, "", gen.ProcessStateRunning, 0)
	cons, _ := vfProc(n, 2001, "", gen.ProcessStateRunning, 0)
	buffer := lib.VerifPick("buffer", 3)
	token, err := prod.RegisterEvent("ev", gen.EventOptions{Buffer: buffer})
	lib.VerifAssert(err == nil, "event registered")
	ev := gen.Event{Name: "ev", Node: n.name}
	if lib.VerifPick("earlier", 2) == 1 {
		lib.VerifAssert(prod.SendEvent("ev", token, 1) == nil, "the token holder can publish")
	}
	w := &c18WindowTM{TargetManager: n.targetManager, cons: cons, ev: ev, asLink: lib.VerifPick("kind", 2) == 0}
	n.targetManager = w
	lib.VerifAssert(prod.SendEvent("ev", token, 7) == nil, "the token holder can publish")
	lib.VerifYield()
	lib.VerifAssert(w.done && w.err == nil, "the subscription in the window succeeded")
	handed := 0
	for _, m := range w.last {
		if m.Message == 7 {
			handed++
		}
	}
	delivered := 0
	for it := cons.mailbox.Main.Item(); it != nil; it = it.Next() {
		if mm, ok := it.Value().(*gen.MailboxMessage); ok {
			if me, ok := mm.Message.(gen.MessageEvent); ok && me.Message == 7 {
				delivered++
			}
		}
	}
	lib.VerifAssert(handed+delivered <= 1, "a subscriber sees a publication at most once (handed over as buffered or delivered, not both)")
	lib.VerifAssert(handed+delivered >= 1 || buffer == 0, "a publication under way when the subscription completes is not lost to a buffered event")
	lib.VerifReach("window checked")
}
