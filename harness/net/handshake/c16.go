//go:build verif

package handshake

import (
	"errors"
	"net"
	"time"

	"ergo.services/ergo/lib"
)

var errVfTimeout = errors.New("i/o timeout")

// vfHConn is a fake net.Conn for the handshake reader: Read hands out the scripted chunks; once they
// are used up the peer is silent and Read returns the deadline error a real connection returns when
// the read deadline set by the caller passes.
type vfHConn struct {
	chunks [][]byte
	reads  int
	armed  bool // a read deadline is set
	naked  int  // Read calls made without a deadline although a timeout was requested
}

func (c *vfHConn) Read(p []byte) (int, error) {
	c.reads++
	if !c.armed {
		c.naked++
	}
	if len(c.chunks) == 0 {
		return 0, errVfTimeout
	}
	n := copy(p, c.chunks[0])
	if n < len(c.chunks[0]) {
		c.chunks[0] = c.chunks[0][n:]
	} else {
		c.chunks = c.chunks[1:]
	}
	return n, nil
}
func (c *vfHConn) Write(p []byte) (int, error)        { return len(p), nil }
func (c *vfHConn) Close() error                       { return nil }
func (c *vfHConn) LocalAddr() net.Addr                { return &net.TCPAddr{} }
func (c *vfHConn) RemoteAddr() net.Addr               { return &net.TCPAddr{} }
func (c *vfHConn) SetDeadline(t time.Time) error      { return nil }
func (c *vfHConn) SetReadDeadline(t time.Time) error  { c.armed = !t.IsZero(); return nil }
func (c *vfHConn) SetWriteDeadline(t time.Time) error { return nil }

// VerifC16Handshake: an arbitrary byte string (symbolic content and length) reaches the handshake
// reader in up to three arbitrary pieces (the first optionally as the caller's left-over chunk) and
// then the peer goes silent. The real readMessage must return (no spinning, no waiting without a
// deadline), must not panic, must not read more often than pieces arrive plus the final timeout and
// must not allocate out of proportion to the input.
func VerifC16Handshake() {
	lib.VerifClockAdvance(0) // concrete manual clock: the deadline arithmetic is not the subject
	max := lib.VerifParam("maxbytes", 10)
	n := lib.VerifPick("len", max+1)
	data := lib.VerifBytes("in", n)
	if lib.VerifParam("magic", 0) == 1 && n >= 2 {
		lib.VerifAssume(data[0] == handshakeMagic && data[1] == handshakeVersion)
	}
	if lib.VerifParam("short", 0) == 1 && n >= 6 {
		// steer towards declared lengths near the input size (the interesting window)
		lib.VerifAssume(data[2] == 0 && data[3] == 0 && data[4] == 0 && int(data[5]) <= max)
	}
	c1 := lib.VerifPick("cut1", n+1)
	c2 := n
	if lib.VerifParam("pieces", 3) >= 3 {
		c2 = c1 + lib.VerifPick("cut2", n-c1+1)
	}
	pre := lib.VerifPick("leftover", 2)
	conn := &vfHConn{}
	var chunk []byte
	pieces := 0
	for i, p := range [][]byte{data[:c1], data[c1:c2], data[c2:]} {
		if len(p) == 0 {
			continue
		}
		if i == 0 && pre == 1 {
			chunk = append(chunk, p...)
			continue
		}
		conn.chunks = append(conn.chunks, p)
		pieces++
	}
	h := &handshake{}
	lib.VerifAllocReset()
	lib.VerifStepBound(50000)
	_, tail, err := h.readMessage(conn, time.Second, chunk)
	lib.VerifStepBound(0)
	lib.VerifAssert(conn.reads <= pieces+1, "the reader reads no more often than data arrives plus one timeout")
	lib.VerifAssert(conn.naked == 0, "every wait for the peer has a deadline")
	if err == nil {
		lib.VerifAssert(n >= 7 && len(tail) <= n-7, "a message is only accepted from a complete packet")
		lib.VerifReach("handshake message accepted")
	} else {
		lib.VerifReach("handshake input refused")
	}
	lib.VerifAssert(lib.VerifAllocMax() <= 8192+64*n, "allocations stay in proportion to the input")
}
