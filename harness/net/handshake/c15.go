//go:build verif

package handshake

import (
	"net"
	"sync/atomic"
	"time"

	"ergo.services/ergo/gen"
	"ergo.services/ergo/lib"
)

type vfHNode struct {
	name     gen.Atom
	creation int64
}

func (n *vfHNode) Name() gen.Atom       { return n.name }
func (n *vfHNode) Creation() int64      { return n.creation }
func (n *vfHNode) Version() gen.Version { return gen.Version{Name: "t", Release: "1"} }

// vfWire is one end of a recorded connection: Read hands out the scripted bytes and then times out
// (the other side is silent); everything written is kept.
type vfWire struct {
	in  []byte
	out []byte
}

func (c *vfWire) Read(p []byte) (int, error) {
	if len(c.in) == 0 {
		return 0, errVfTimeout
	}
	n := copy(p, c.in)
	c.in = c.in[n:]
	return n, nil
}
func (c *vfWire) Write(p []byte) (int, error)        { c.out = append(c.out, p...); return len(p), nil }
func (c *vfWire) Close() error                       { return nil }
func (c *vfWire) LocalAddr() net.Addr                { return &net.TCPAddr{} }
func (c *vfWire) RemoteAddr() net.Addr               { return &net.TCPAddr{} }
func (c *vfWire) SetDeadline(t time.Time) error      { return nil }
func (c *vfWire) SetReadDeadline(t time.Time) error  { return nil }
func (c *vfWire) SetWriteDeadline(t time.Time) error { return nil }

// VerifC15Join: what an acceptor answers to a pooled-link request (MessageJoin) it did not see being
// made. (0) An eavesdropper replays, byte for byte, a Join that the genuine peer sent earlier; (1) a
// stranger builds a Join with the right shape but a digest made with another cookie; (2) the recorded
// Join with one byte of its digest changed. None of them knows the cookie, so none may complete the
// handshake.
func VerifC15Join() {
	lib.VerifClockAdvance(0)
	const cookie = "the-cookie"
	peer := Create(Options{}).(*handshake)
	acceptor := Create(Options{}).(*handshake)
	scenario := lib.VerifPick("scenario", 3)
	switch lib.VerifParam("known:join-replay", 0) {
	case 1:
		lib.VerifAssume(scenario != 0)
	case 2:
		lib.VerifAssume(scenario == 0)
	}
	// the genuine peer asks for a pooled link; the bytes it sends are what a listener on the wire sees
	rec := &vfWire{}
	useCookie := cookie
	if scenario == 1 {
		useCookie = "a-guess"
	}
	peer.Join(&vfHNode{name: "a@h", creation: 1}, rec, "connection-1", gen.HandshakeOptions{Cookie: useCookie})
	transcript := append([]byte{}, rec.out...)
	lib.VerifAssert(len(transcript) > 6, "the join request went out")
	if scenario == 2 && len(transcript) > 6 {
		transcript[len(transcript)-1] ^= 1
	}
	// later, on a new TCP connection, those bytes are presented to the acceptor
	w := &vfWire{in: transcript}
	res, err := acceptor.Accept(&vfHNode{name: "b@h", creation: 2}, w, gen.HandshakeOptions{Cookie: cookie})
	lib.VerifAssert(err != nil || res.Peer == "", "a party that does not know the cookie - replaying a recorded request included - does not complete the handshake")
	lib.VerifReach("join request answered")
}

// vfDuplex is one end of an in-memory connection between two goroutines.
type vfDuplex struct {
	rd  chan []byte
	wr  chan []byte
	buf []byte
}

func (c *vfDuplex) Read(p []byte) (int, error) {
	if len(c.buf) == 0 {
		select {
		case b := <-c.rd:
			c.buf = b
		case <-time.After(2 * time.Second):
			return 0, errVfTimeout
		}
	}
	n := copy(p, c.buf)
	c.buf = c.buf[n:]
	return n, nil
}
func (c *vfDuplex) Write(p []byte) (int, error) {
	c.wr <- append([]byte{}, p...)
	return len(p), nil
}
func (c *vfDuplex) Close() error                       { return nil }
func (c *vfDuplex) LocalAddr() net.Addr                { return &net.TCPAddr{} }
func (c *vfDuplex) RemoteAddr() net.Addr               { return &net.TCPAddr{} }
func (c *vfDuplex) SetDeadline(t time.Time) error      { return nil }
func (c *vfDuplex) SetReadDeadline(t time.Time) error  { return nil }
func (c *vfDuplex) SetWriteDeadline(t time.Time) error { return nil }

// VerifC15Handshake: the real Start (dialing side) and the real Accept (listening side) talk to each
// other over an in-memory connection, each with its own cookie, flags and message-size limit. They
// become connected only if the cookies are equal, and then both ends agree on names, incarnations,
// flags, size limits and the connection id.
func VerifC15Handshake() {
	lib.VerifClockAdvance(0)
	cookies := []string{"alpha", "beta", ""}
	ca := cookies[lib.VerifPick("cookie-dialer", 3)]
	cb := cookies[lib.VerifPick("cookie-acceptor", 3)]
	fa := gen.NetworkFlags{Enable: true, EnableRemoteSpawn: lib.VerifPick("spawn-a", 2) == 1, EnableImportantDelivery: true}
	fb := gen.NetworkFlags{Enable: true, EnableRemoteApplicationStart: lib.VerifPick("appstart-b", 2) == 1}
	la, lb := 1000+lib.VerifPick("limit-a", 2)*500, 3000
	ab, ba := make(chan []byte, 32), make(chan []byte, 32)
	dialer := &vfDuplex{rd: ba, wr: ab}
	acceptor := &vfDuplex{rd: ab, wr: ba}
	ha := Create(Options{}).(*handshake)
	hb := Create(Options{}).(*handshake)
	na, nb := &vfHNode{name: "a@h", creation: 11}, &vfHNode{name: "b@h", creation: 22}
	var ra gen.HandshakeResult
	var ea error
	var done int32
	go func() {
		ra, ea = ha.Start(na, dialer, gen.HandshakeOptions{Cookie: ca, Flags: fa, MaxMessageSize: la})
		atomic.StoreInt32(&done, 1)
	}()
	rb, eb := hb.Accept(nb, acceptor, gen.HandshakeOptions{Cookie: cb, Flags: fb, MaxMessageSize: lb})
	// the other side may still be waiting for an answer that never comes: let its read time out
	// (executor: fire the virtual timers; natively: wait)
	for i := 0; i < 40 && atomic.LoadInt32(&done) == 0; i++ {
		lib.VerifYield()
		lib.VerifFireTimers()
		lib.VerifYield()
		time.Sleep(100 * time.Millisecond)
	}
	lib.VerifAssert(atomic.LoadInt32(&done) == 1, "the dialing side comes back")
	if ca != cb {
		lib.VerifAssert(ea != nil && eb != nil, "with different cookies neither side completes the handshake")
		lib.VerifReach("refused")
		return
	}
	lib.VerifAssert(ea == nil && eb == nil, "with equal cookies the handshake completes")
	if ea != nil || eb != nil {
		return
	}
	lib.VerifAssert(ra.Peer == "b@h" && rb.Peer == "a@h", "both ends agree on the names")
	lib.VerifAssert(ra.PeerCreation == 22 && rb.PeerCreation == 11, "both ends agree on the incarnations")
	lib.VerifAssert(ra.PeerFlags == fb && rb.PeerFlags == fa && ra.NodeFlags == fa && rb.NodeFlags == fb, "both ends agree on the flags")
	lib.VerifAssert(ra.PeerMaxMessageSize == lb && rb.PeerMaxMessageSize == la && ra.NodeMaxMessageSize == la && rb.NodeMaxMessageSize == lb, "both ends agree on the message-size limits")
	lib.VerifAssert(ra.ConnectionID == rb.ConnectionID && ra.ConnectionID != "", "both ends agree on the connection id")
	lib.VerifReach("connected")
}

// vfRecorder records what goes through one direction of a vfDuplex.
type vfRecorder struct {
	*vfDuplex
	sent []byte
}

func (r *vfRecorder) Write(p []byte) (int, error) {
	r.sent = append(r.sent, p...)
	return r.vfDuplex.Write(p)
}

// VerifC15Replay: an eavesdropper records everything a genuine dialing node sent during a complete,
// successful handshake (Hello, Introduce, Accept) and later presents those bytes, unchanged, to the
// same acceptor on a new connection. The acceptor salts every session afresh, so the recording must
// not get through.
func VerifC15Replay() {
	lib.VerifClockAdvance(0)
	const cookie = "the-cookie"
	ab, ba := make(chan []byte, 32), make(chan []byte, 32)
	dialer := &vfRecorder{vfDuplex: &vfDuplex{rd: ba, wr: ab}}
	acceptor := &vfDuplex{rd: ab, wr: ba}
	ha := Create(Options{}).(*handshake)
	hb := Create(Options{}).(*handshake)
	na, nb := &vfHNode{name: "a@h", creation: 11}, &vfHNode{name: "b@h", creation: 22}
	var ea error
	var done int32
	go func() {
		_, ea = ha.Start(na, dialer, gen.HandshakeOptions{Cookie: cookie})
		atomic.StoreInt32(&done, 1)
	}()
	_, eb := hb.Accept(nb, acceptor, gen.HandshakeOptions{Cookie: cookie})
	for i := 0; i < 40 && atomic.LoadInt32(&done) == 0; i++ {
		lib.VerifYield()
		lib.VerifFireTimers()
		lib.VerifYield()
		time.Sleep(100 * time.Millisecond)
	}
	lib.VerifAssert(atomic.LoadInt32(&done) == 1 && ea == nil && eb == nil, "the genuine handshake completes")
	recording := append([]byte{}, dialer.sent...)
	lib.VerifAssert(len(recording) > 12, "the dialer's side of the handshake was recorded")
	// the replay
	w := &vfWire{in: recording}
	res, err := hb.Accept(nb, w, gen.HandshakeOptions{Cookie: cookie})
	lib.VerifAssert(err != nil || res.Peer == "", "a recorded handshake replayed to the acceptor does not get through")
	lib.VerifReach("replay answered")
}

// VerifC15RogueAcceptor: the unauthenticated party sits on the *listening* side. A genuine session between
// the real Start and the real Accept is recorded in both directions; then the real Start (which knows
// the cookie) dials a peer that does not: it answers the dialer's Hello with material it can have without
// the cookie - the dialer's own Hello reflected, the recorded reply Hello, the recorded salt with the
// proof the genuine dialer gave for it (its Introduce digest), the recorded dialer Hello, or the fresh
// digest under another salt - and then plays the rest of the acceptor's part (Accept, Introduce under a
// name of its choice). The dialing side must refuse every one of them.
func VerifC15RogueAcceptor() {
	lib.VerifClockAdvance(0)
	const cookie = "the-cookie"
	ha := Create(Options{}).(*handshake)
	hb := Create(Options{}).(*handshake)
	hr := Create(Options{}).(*handshake) // the rogue's framing only
	na, nb := &vfHNode{name: "a@h", creation: 11}, &vfHNode{name: "b@h", creation: 22}
	wait := func(done *int32) {
		for i := 0; i < 40 && atomic.LoadInt32(done) == 0; i++ {
			lib.VerifYield()
			lib.VerifFireTimers()
			lib.VerifYield()
			time.Sleep(100 * time.Millisecond)
		}
	}
	// 1. the genuine session, recorded
	ab, ba := make(chan []byte, 32), make(chan []byte, 32)
	dialer := &vfRecorder{vfDuplex: &vfDuplex{rd: ba, wr: ab}}
	acceptor := &vfRecorder{vfDuplex: &vfDuplex{rd: ab, wr: ba}}
	var ea error
	var done int32
	go func() {
		_, ea = ha.Start(na, dialer, gen.HandshakeOptions{Cookie: cookie})
		atomic.StoreInt32(&done, 1)
	}()
	_, eb := hb.Accept(nb, acceptor, gen.HandshakeOptions{Cookie: cookie})
	wait(&done)
	lib.VerifAssert(atomic.LoadInt32(&done) == 1 && ea == nil && eb == nil, "the genuine handshake completes")
	if ea != nil || eb != nil {
		return
	}
	v1, tail, e1 := hr.readMessage(&vfWire{in: append([]byte{}, acceptor.sent...)}, time.Second, nil)
	oldReply, ok1 := v1.(MessageHello)
	dw := &vfWire{in: append([]byte{}, dialer.sent...)}
	d1, dtail, e2 := hr.readMessage(dw, time.Second, nil)
	oldHello, ok2 := d1.(MessageHello)
	d2, _, e3 := hr.readMessage(dw, time.Second, dtail)
	oldIntro, ok3 := d2.(MessageIntroduce)
	_ = tail
	lib.VerifAssert(e1 == nil && ok1, "the recorded reply Hello parses")
	lib.VerifAssert(e2 == nil && ok2, "the recorded dialer Hello parses")
	lib.VerifAssert(e3 == nil && ok3, "the recorded dialer Introduce parses")
	if !(ok1 && ok2 && ok3) {
		return
	}
	// 2. the rogue acceptor
	variant := lib.VerifPick("variant", 5)
	ab2, ba2 := make(chan []byte, 32), make(chan []byte, 32)
	dialer2 := &vfDuplex{rd: ba2, wr: ab2}
	rogue := &vfDuplex{rd: ab2, wr: ba2}
	var res gen.HandshakeResult
	var er error
	var done2 int32
	go func() {
		res, er = ha.Start(na, dialer2, gen.HandshakeOptions{Cookie: cookie})
		atomic.StoreInt32(&done2, 1)
	}()
	v, _, err := hr.readMessage(rogue, time.Second, nil)
	hello, ok := v.(MessageHello)
	lib.VerifAssert(err == nil && ok, "the dialer opens with a Hello")
	if err != nil || !ok {
		return
	}
	var reply MessageHello
	switch variant {
	case 0:
		reply = MessageHello{Salt: hello.Salt, Digest: hello.Digest}
	case 1:
		reply = oldReply
	case 2:
		reply = MessageHello{Salt: oldReply.Salt, Digest: oldIntro.Digest}
	case 3:
		reply = MessageHello{Salt: oldHello.Salt, Digest: oldHello.Digest}
	default:
		reply = MessageHello{Salt: "x", Digest: hello.Digest}
	}
	hr.writeMessage(rogue, reply)
	hr.writeMessage(rogue, MessageAccept{ID: "rogue-connection", PoolSize: 1})
	hr.writeMessage(rogue, MessageIntroduce{Node: "rogue@h", Version: nb.Version(), Flags: gen.NetworkFlags{Enable: true, EnableRemoteSpawn: true}, Creation: 5})
	wait(&done2)
	lib.VerifAssert(atomic.LoadInt32(&done2) == 1, "the dialing side comes back")
	lib.VerifAssert(er != nil && res.Peer == "", "a listening peer that does not know the cookie - reflecting or replaying recorded handshake material included - is refused by the dialing side")
	lib.VerifReach("rogue acceptor answered")
}
