//go:build verif

package handshake

import (
	"net"
	"sync/atomic"
	"time"

	"ergo.services/ergo/gen"
	"ergo.services/ergo/lib"
)

type vfHNode struct {
	name     gen.Atom
	creation int64
}

func (n *vfHNode) Name() gen.Atom       { return n.name }
func (n *vfHNode) Creation() int64      { return n.creation }
func (n *vfHNode) Version() gen.Version { return gen.Version{Name: "t", Release: "1"} }

// vfWire is one end of a recorded connection: Read hands out the scripted bytes and then times out
// (the other side is silent); everything written is kept.
type vfWire struct {
	in  []byte
	out []byte
}

func (c *vfWire) Read(p []byte) (int, error) {
	if len(c.in) == 0 {
		return 0, errVfTimeout
	}
	n := copy(p, c.in)
	c.in = c.in[n:]
	return n, nil
}
func (c *vfWire) Write(p []byte) (int, error)        { c.out = append(c.out, p...); return len(p), nil }
func (c *vfWire) Close() error                       { return nil }
func (c *vfWire) LocalAddr() net.Addr                { return &net.TCPAddr{} }
func (c *vfWire) RemoteAddr() net.Addr               { return &net.TCPAddr{} }
func (c *vfWire) SetDeadline(t time.Time) error      { return nil }
func (c *vfWire) SetReadDeadline(t time.Time) error  { return nil }
func (c *vfWire) SetWriteDeadline(t time.Time) error { return nil }

// VerifC15Join: what an acceptor answers to a pooled-link request (MessageJoin) it did not see being
// made. (0) An eavesdropper replays, byte for byte, a Join that the genuine peer sent earlier; (1) a
// stranger builds a Join with the right shape but a digest made with another cookie; (2) the recorded
// Join with one byte of its digest changed. None of them knows the cookie, so none may complete the
// handshake.
func VerifC15Join() {
	lib.VerifClockAdvance(0)
	const cookie = "the-cookie"
	peer := Create(Options{}).(*handshake)
	acceptor := Create(Options{}).(*handshake)
	scenario := lib.VerifPick("scenario", 3)
	switch lib.VerifParam("known:join-replay", 0) {
	case 1:
		lib.VerifAssume(scenario != 0)
	case 2:
		lib.VerifAssume(scenario == 0)
	}
	// the genuine peer asks for a pooled link; the bytes it sends are what a listener on the wire sees
	rec := &vfWire{}
	useCookie := cookie
	if scenario == 1 {
		useCookie = "a-guess"
	}
	peer.Join(&vfHNode{name: "a@h", creation: 1}, rec, "connection-1", gen.HandshakeOptions{Cookie: useCookie})
	transcript := append([]byte{}, rec.out...)
	lib.VerifAssert(len(transcript) > 6, "the join request went out")
	if scenario == 2 && len(transcript) > 6 {
		transcript[len(transcript)-1] ^= 1
	}
	// later, on a new TCP connection, those bytes are presented to the acceptor
	w := &vfWire{in: transcript}
	res, err := acceptor.Accept(&vfHNode{name: "b@h", creation: 2}, w, gen.HandshakeOptions{Cookie: cookie})
	lib.VerifAssert(err != nil || res.Peer == "", "a party that does not know the cookie - replaying a recorded request included - does not complete the handshake")
	lib.VerifReach("join request answered")
}

// vfDuplex is one end of an in-memory connection between two goroutines.
type vfDuplex struct {
	rd  chan []byte
	wr  chan []byte
	buf []byte
}

func (c *vfDuplex) Read(p []byte) (int, error) {
	if len(c.buf) == 0 {
		select {
		case b := <-c.rd:
			c.buf = b
		case <-time.After(2 * time.Second):
			return 0, errVfTimeout
		}
	}
	n := copy(p, c.buf)
	c.buf = c.buf[n:]
	return n, nil
}
func (c *vfDuplex) Write(p []byte) (int, error) {
	c.wr <- append([]byte{}, p...)
	return len(p), nil
}
func (c *vfDuplex) Close() error                       { return nil }
func (c *vfDuplex) LocalAddr() net.Addr                { return &net.TCPAddr{} }
func (c *vfDuplex) RemoteAddr() net.Addr               { return &net.TCPAddr{} }
func (c *vfDuplex) SetDeadline(t time.Time) error      { return nil }
func (c *vfDuplex) SetReadDeadline(t time.Time) error  { return nil }
func (c *vfDuplex) SetWriteDeadline(t time.Time) error { return nil }

// VerifC15Handshake: the real Start (dialing side) and the real Accept (listening side) talk to each
// other over an in-memory connection, each with its own cookie, flags and message-size limit. They
// become connected only if the cookies are equal, and then both ends agree on names, incarnations,
// flags, size limits and the connection id.
func VerifC15Handshake() {
	lib.VerifClockAdvance(0)
	cookies := []string{"alpha", "beta", ""}
	ca := cookies[lib.VerifPick("cookie-dialer", 3)]
	cb := cookies[lib.VerifPick("cookie-acceptor", 3)]
	fa := gen.NetworkFlags{Enable: true, EnableRemoteSpawn: lib.VerifPick("spawn-a", 2) == 1, EnableImportantDelivery: true}
	fb := gen.NetworkFlags{Enable: true, EnableRemoteApplicationStart: lib.VerifPick("appstart-b", 2) == 1}
	la, lb := 1000+lib.VerifPick("limit-a", 2)*500, 3000
	ab, ba := make(chan []byte, 32), make(chan []byte, 32)
	dialer := &vfDuplex{rd: ba, wr: ab}
	acceptor := &vfDuplex{rd: ab, wr: ba}
	ha := Create(Options{}).(*handshake)
	hb := Create(Options{}).(*handshake)
	na, nb := &vfHNode{name: "a@h", creation: 11}, &vfHNode{name: "b@h", creation: 22}
	var ra gen.HandshakeResult
	var ea error
	var done int32
	go func() {
		ra, ea = ha.Start(na, dialer, gen.HandshakeOptions{Cookie: ca, Flags: fa, MaxMessageSize: la})
		atomic.StoreInt32(&done, 1)
	}()
	rb, eb := hb.Accept(nb, acceptor, gen.HandshakeOptions{Cookie: cb, Flags: fb, MaxMessageSize: lb})
	// the other side may still be waiting for an answer that never comes: let its read time out
	// (executor: fire the virtual timers; natively: wait)
	for i := 0; i < 40 && atomic.LoadInt32(&done) == 0; i++ {
		lib.VerifYield()
		lib.VerifFireTimers()
		lib.VerifYield()
		time.Sleep(100 * time.Millisecond)
	}
	lib.VerifAssert(atomic.LoadInt32(&done) == 1, "the dialing side comes back")
	if ca != cb {
		lib.VerifAssert(ea != nil && eb != nil, "with different cookies neither side completes the handshake")
		lib.VerifReach("refused")
		return
	}
	lib.VerifAssert(ea == nil && eb == nil, "with equal cookies the handshake completes")
	if ea != nil || eb != nil {
		return
	}
	lib.VerifAssert(ra.Peer == "b@h" && rb.Peer == "a@h", "both ends agree on the names")
	lib.VerifAssert(ra.PeerCreation == 22 && rb.PeerCreation == 11, "both ends agree on the incarnations")
	lib.VerifAssert(ra.PeerFlags == fb && rb.PeerFlags == fa && ra.NodeFlags == fa && rb.NodeFlags == fb, "both ends agree on the flags")
	lib.VerifAssert(ra.PeerMaxMessageSize == lb && rb.PeerMaxMessageSize == la && ra.NodeMaxMessageSize == la && rb.NodeMaxMessageSize == lb, "both ends agree on the message-size limits")
	lib.VerifAssert(ra.ConnectionID == rb.ConnectionID && ra.ConnectionID != "", "both ends agree on the connection id")
	lib.VerifReach("connected")
}

// vfRecorder records what goes through one direction of a vfDuplex.
type vfRecorder struct {
	*vfDuplex
	sent []byte
}

func (r *vfRecorder) Write(p []byte) (int, error) {
	r.sent = append(r.sent, p...)
	return r.vfDuplex.Write(p)
}

// VerifC15Replay: an eavesdropper records everything a genuine dialing node sent during a complete,
// successful handshake (Hello, Introduce, Accept) and later presents those bytes, unchanged, to the
// same acceptor on a new connection. The acceptor salts every session afresh, so the recording must
// not get through.
func VerifC15Replay() {
	lib.VerifClockAdvance(0)
	const cookie = "the-cookie"
	ab, ba := make(chan []byte, 32), make(chan []byte, 32)
	dialer := &vfRecorder{vfDuplex: &vfDuplex{rd: ba, wr: ab}}
	acceptor := &vfDuplex{rd: ab, wr: ba}
	ha := Create(Options{}).(*handshake)
	hb := Create(Options{}).(*handshake)
	na, nb := &vfHNode{name: "a@h", creation: 11}, &vfHNode{name: "b@h", creation: 22}
	var ea error
	var done int32
	go func() {
		_, ea = ha.Start(na, dialer, gen.HandshakeOptions{Cookie: cookie})
		atomic.StoreInt32(&done, 1)
	}()
	_, eb := hb.Accept(nb, acceptor, gen.HandshakeOptions{Cookie: cookie})
	for i := 0; i < 40 && atomic.LoadInt32(&done) == 0; i++ {
		lib.VerifYield()
		lib.VerifFireTimers()
		lib.VerifYield()
		time.Sleep(100 * time.Millisecond)
	}
	lib.VerifAssert(atomic.LoadInt32(&done) == 1 && ea == nil && eb == nil, "the genuine handshake completes")
	recording := append([]byte{}, dialer.sent...)
	lib.VerifAssert(len(recording) > 12, "the dialer's side of the handshake was recorded")
	// the replay
	w := &vfWire{in: recording}
	res, err := hb.Accept(nb, w, gen.HandshakeOptions{Cookie: cookie})
	lib.VerifAssert(err != nil || res.Peer == "", "a recorded handshake replayed to the acceptor does not get through")
	lib.VerifReach("replay answered")
}
