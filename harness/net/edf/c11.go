//go:build verif

package edf

import (
	"errors"
	"math"
	"reflect"
	"sync"

	"ergo.services/ergo/gen"
	"ergo.services/ergo/lib"
)

func c11RoundTrip(v any, tag string) (any, bool) {
	b := lib.TakeBuffer()
	err := Encode(v, b, Options{})
	lib.VerifAssert(err == nil, tag+": the encoder accepts the value")
	if err != nil {
		return nil, false
	}
	out, tail, err := Decode(b.B, Options{})
	lib.VerifAssert(err == nil, tag+": what encodes, decodes")
	lib.VerifAssert(len(tail) == 0, tag+": decoding consumes exactly the bytes produced")
	return out, err == nil
}

// VerifC11Ints: every integer kind round-trips for every value.
func VerifC11Ints() {
	switch lib.VerifShard("kind", 10) {
	case 0:
		v := lib.VerifInt("v")
		out, ok := c11RoundTrip(v, "int")
		lib.VerifAssert(!ok || out == v, "int: decoded value equals the encoded one")
	case 1:
		v := int8(lib.VerifByte("v"))
		out, ok := c11RoundTrip(v, "int8")
		lib.VerifAssert(!ok || out == v, "int8: decoded value equals the encoded one")
	case 2:
		v := int16(lib.VerifUint16("v"))
		out, ok := c11RoundTrip(v, "int16")
		lib.VerifAssert(!ok || out == v, "int16: decoded value equals the encoded one")
	case 3:
		v := lib.VerifInt32("v")
		out, ok := c11RoundTrip(v, "int32")
		lib.VerifAssert(!ok || out == v, "int32: decoded value equals the encoded one")
	case 4:
		v := lib.VerifInt64("v")
		out, ok := c11RoundTrip(v, "int64")
		lib.VerifAssert(!ok || out == v, "int64: decoded value equals the encoded one")
	case 5:
		v := uint(lib.VerifUint64("v"))
		out, ok := c11RoundTrip(v, "uint")
		lib.VerifAssert(!ok || out == v, "uint: decoded value equals the encoded one")
	case 6:
		v := lib.VerifByte("v")
		out, ok := c11RoundTrip(v, "uint8")
		lib.VerifAssert(!ok || out == v, "uint8: decoded value equals the encoded one")
	case 7:
		v := lib.VerifUint16("v")
		out, ok := c11RoundTrip(v, "uint16")
		lib.VerifAssert(!ok || out == v, "uint16: decoded value equals the encoded one")
	case 8:
		v := lib.VerifUint32("v")
		out, ok := c11RoundTrip(v, "uint32")
		lib.VerifAssert(!ok || out == v, "uint32: decoded value equals the encoded one")
	case 9:
		v := lib.VerifUint64("v")
		out, ok := c11RoundTrip(v, "uint64")
		lib.VerifAssert(!ok || out == v, "uint64: decoded value equals the encoded one")
	}
	lib.VerifReach("round trip done")
}

func c11Bytes(name string, n int) []byte { return lib.VerifBytes(name, n) }

// VerifC11Scalars: bool, floats (as bit patterns), strings, byte slices, atoms with symbolic
// content and a symbolic small length.
func VerifC11Scalars() {
	maxLen := lib.VerifParam("maxlen", 3)
	switch lib.VerifShard("kind", 6) {
	case 0:
		v := lib.VerifBool("v")
		out, ok := c11RoundTrip(v, "bool")
		lib.VerifAssert(!ok || out == v, "bool: decoded value equals the encoded one")
	case 1:
		bits := lib.VerifUint32("bits")
		v := math.Float32frombits(bits)
		out, ok := c11RoundTrip(v, "float32")
		if ok {
			f, isF := out.(float32)
			lib.VerifAssert(isF && math.Float32bits(f) == bits, "float32: decoded bits equal the encoded ones")
		}
	case 2:
		bits := lib.VerifUint64("bits")
		v := math.Float64frombits(bits)
		out, ok := c11RoundTrip(v, "float64")
		if ok {
			f, isF := out.(float64)
			lib.VerifAssert(isF && math.Float64bits(f) == bits, "float64: decoded bits equal the encoded ones")
		}
	case 3:
		n := lib.VerifPick("len", maxLen+1)
		v := lib.VerifString("s", n)
		out, ok := c11RoundTrip(v, "string")
		lib.VerifAssert(!ok || out == v, "string: decoded value equals the encoded one")
	case 4:
		n := lib.VerifPick("len", maxLen+1)
		v := c11Bytes("b", n)
		out, ok := c11RoundTrip(v, "[]byte")
		if ok {
			o, isB := out.([]byte)
			lib.VerifAssert(isB && len(o) == len(v), "[]byte: decoded length equals the encoded one")
			for i := 0; isB && i < len(v) && i < len(o); i++ {
				lib.VerifAssert(o[i] == v[i], "[]byte: decoded bytes equal the encoded ones")
			}
		}
	case 5:
		n := lib.VerifPick("len", maxLen+1)
		v := gen.Atom(lib.VerifString("a", n))
		out, ok := c11RoundTrip(v, "atom")
		lib.VerifAssert(!ok || out == v, "atom: decoded value equals the encoded one")
	}
	lib.VerifReach("round trip done")
}

// c11Caches builds a negotiated pair of atom caches/mappings: the encoder maps atom -> id, the
// decoder id -> atom. The id is symbolic (ids <= 255 must not be used as cache references).
func c11Caches(atom gen.Atom, useCache, useMapping bool) (Options, Options, gen.Atom) {
	var enc, dec Options
	expect := atom
	if useMapping {
		enc.AtomMapping = new(sync.Map)
		enc.AtomMapping.Store(atom, gen.Atom("mapped@h"))
		expect = "mapped@h"
	}
	if useCache {
		id := lib.VerifUint16("cacheid")
		enc.AtomCache = new(sync.Map)
		dec.AtomCache = new(sync.Map)
		enc.AtomCache.Store(expect, id)
		dec.AtomCache.Store(id, expect)
	}
	return enc, dec, expect
}

// VerifC11Idents: framework identifiers with symbolic numeric fields, with and without the atom
// cache and atom mapping two nodes negotiate.
func VerifC11Idents() {
	useCache := lib.VerifPick("cache", 2) == 1
	useMapping := lib.VerifPick("mapping", 2) == 1
	node := gen.Atom("n@h")
	enc, dec, wantNode := c11Caches(node, useCache, useMapping)
	id := lib.VerifUint64("id")
	cr := lib.VerifInt64("creation")
	var v, want any
	switch lib.VerifShard("kind", 5) {
	case 0:
		v, want = gen.PID{Node: node, ID: id, Creation: cr}, gen.PID{Node: wantNode, ID: id, Creation: cr}
	case 1:
		v, want = gen.ProcessID{Name: "proc", Node: node}, gen.ProcessID{Name: "proc", Node: wantNode}
	case 2:
		ids := [3]uint64{id, lib.VerifUint64("id1"), lib.VerifUint64("id2")}
		v, want = gen.Ref{Node: node, Creation: cr, ID: ids}, gen.Ref{Node: wantNode, Creation: cr, ID: ids}
	case 3:
		ids := [3]uint64{id, lib.VerifUint64("id1"), lib.VerifUint64("id2")}
		v, want = gen.Alias{Node: node, Creation: cr, ID: ids}, gen.Alias{Node: wantNode, Creation: cr, ID: ids}
	case 4:
		v, want = gen.Event{Name: "ev", Node: node}, gen.Event{Name: "ev", Node: wantNode}
	}
	b := lib.TakeBuffer()
	err := Encode(v, b, enc)
	lib.VerifAssert(err == nil, "identifier: the encoder accepts the value")
	if err != nil {
		return
	}
	out, tail, err := Decode(b.B, dec)
	lib.VerifAssert(err == nil, "identifier: what encodes, decodes")
	lib.VerifAssert(len(tail) == 0, "identifier: decoding consumes exactly the bytes produced")
	lib.VerifAssert(err != nil || out == want, "identifier: decoded value equals the encoded one (atoms mapped as negotiated)")
	lib.VerifReach("round trip done")
}

var errC11Sentinel = errors.New("sentinel")

// VerifC11Errors: plain errors with symbolic text, and a registered sentinel through the error cache.
func VerifC11Errors() {
	switch lib.VerifShard("kind", 2) {
	case 0:
		n := lib.VerifPick("len", lib.VerifParam("maxlen", 2)+1)
		text := lib.VerifString("t", n)
		if lib.VerifParam("known:error-percent", 0) == 1 {
			for i := 0; i < len(text); i++ {
				lib.VerifAssume(text[i] != '%')
			}
		}
		v := errors.New(text)
		out, ok := c11RoundTrip(v, "error")
		if ok {
			e, isE := out.(error)
			lib.VerifAssert(isE && e.Error() == text, "error: decoded text equals the encoded one")
		}
	case 1:
		id := lib.VerifUint16("errid")
		lib.VerifAssume(id != math.MaxUint16) // addErrCache never hands out 0xffff (it encodes nil)
		enc := Options{ErrCache: new(sync.Map)}
		dec := Options{ErrCache: new(sync.Map)}
		enc.ErrCache.Store(errC11Sentinel, id)
		dec.ErrCache.Store(id, errC11Sentinel)
		// where the sentinel sits: alone, or in an interface-typed / error-typed slot of a collection
		var v any = errC11Sentinel
		pos := lib.VerifPick("position", 4)
		switch pos {
		case 1:
			v = []any{int32(7), errC11Sentinel}
		case 2:
			v = map[string]any{"k": errC11Sentinel}
		case 3:
			v = []error{errC11Sentinel}
		}
		b := lib.TakeBuffer()
		err := Encode(v, b, enc)
		lib.VerifAssert(err == nil, "sentinel: the encoder accepts the value")
		out, tail, err := Decode(b.B, dec)
		lib.VerifAssert(err == nil && len(tail) == 0, "sentinel: what encodes, decodes, consuming exactly the bytes produced")
		if err == nil {
			var got any = out
			switch pos {
			case 1:
				sl, ok := out.([]any)
				lib.VerifAssert(ok && len(sl) == 2 && sl[0] == int32(7), "sentinel in []any: the collection comes back with its other elements")
				if ok && len(sl) == 2 {
					got = sl[1]
				}
			case 2:
				m, ok := out.(map[string]any)
				lib.VerifAssert(ok && len(m) == 1, "sentinel in map[string]any: the map comes back")
				if ok {
					got = m["k"]
				}
			case 3:
				sl, ok := out.([]error)
				lib.VerifAssert(ok && len(sl) == 1, "sentinel in []error: the slice comes back")
				if ok && len(sl) == 1 {
					got = sl[0]
				}
			}
			e, isE := got.(error)
			lib.VerifAssert(isE && (e == errC11Sentinel || e.Error() == "sentinel"), "sentinel: decodes to an equal error")
			if isE && id > math.MaxInt16 && id != math.MaxUint16 {
				lib.VerifAssert(e == errC11Sentinel, "sentinel: a cached registered error comes back as the same sentinel")
			}
		}
	}
	lib.VerifReach("round trip done")
}

// VerifC11StringLen: strings at the top of the accepted length range (content symbolic).
func VerifC11StringLen() {
	lens := []int{65533, 65534, 65535, 65536}
	n := lens[lib.VerifShard("len", 4)]
	base := lib.VerifByte("c")
	bs := make([]byte, n)
	for i := range bs {
		bs[i] = base
	}
	v := string(bs)
	b := lib.TakeBuffer()
	err := Encode(v, b, Options{})
	if n > 65535 {
		lib.VerifAssert(err != nil, "string: a value that cannot be represented is rejected when encoding")
		lib.VerifReach("rejected")
		return
	}
	lib.VerifAssert(err == nil, "string: the encoder accepts lengths up to 65535")
	out, tail, err := Decode(b.B, Options{})
	lib.VerifAssert(err == nil, "string: what encodes, decodes")
	if err == nil {
		s, isS := out.(string)
		lib.VerifAssert(isS && len(s) == n && len(tail) == 0, "string: decoded length equals the encoded one")
	}
	lib.VerifReach("round trip done")
}

type c11Struct struct {
	A int32
	B string
	C []byte
	D any
	E error
	F map[string]uint8
	G [2]uint16
	H []int16
}

type c11Named uint16

// registered named collection types (their codecs are built by registerType, not by getEncoder)
type c11MapAny map[any]int32
type c11MapStr map[string]any
type c11Slice []any
type c11Arr [2]any

// VerifC11Composite: slices, arrays, maps, any, a registered struct and a named type; nil and
// empty collections kept apart (byte slices excepted).
func VerifC11Composite() {
	sh := lib.VerifShard("kind", 11)
	useReg := lib.VerifPick("regcache", 2) == 1
	var enc, dec Options
	RegisterTypeOf(c11Struct{})
	RegisterTypeOf(c11Named(0))
	RegisterTypeOf(c11MapAny{})
	RegisterTypeOf(c11MapStr{})
	RegisterTypeOf(c11Slice{})
	RegisterTypeOf(c11Arr{})
	if useReg {
		enc.RegCache = new(sync.Map)
		dec.RegCache = new(sync.Map)
		enc.RegCache.Store(reflect.TypeOf(c11Struct{}), []byte{edtReg, 0x13, 0x88})
		dec.RegCache.Store(uint16(0x1388), regTypeName(reflect.TypeOf(c11Struct{})))
		enc.RegCache.Store(reflect.TypeOf(c11Named(0)), []byte{edtReg, 0x13, 0x89})
		dec.RegCache.Store(uint16(0x1389), regTypeName(reflect.TypeOf(c11Named(0))))
	}
	rt := func(v any, tag string) (any, bool) {
		b := lib.TakeBuffer()
		err := Encode(v, b, enc)
		lib.VerifAssert(err == nil, tag+": the encoder accepts the value")
		if err != nil {
			return nil, false
		}
		out, tail, err := Decode(b.B, dec)
		lib.VerifAssert(err == nil, tag+": what encodes, decodes")
		lib.VerifAssert(len(tail) == 0, tag+": decoding consumes exactly the bytes produced")
		return out, err == nil
	}
	switch sh {
	case 0: // []int16: nil, empty, 1..2 elements
		var v []int16
		switch lib.VerifPick("shape", 4) {
		case 1:
			v = []int16{}
		case 2:
			v = []int16{int16(lib.VerifUint16("e"))}
		case 3:
			v = []int16{int16(lib.VerifUint16("e")), int16(lib.VerifUint16("e"))}
		}
		out, ok := rt(v, "[]int16")
		if ok {
			o, is := out.([]int16)
			lib.VerifAssert(is && len(o) == len(v) && (o == nil) == (v == nil), "[]int16: same length, nil and empty kept apart")
			for i := 0; is && i < len(o) && i < len(v); i++ {
				lib.VerifAssert(o[i] == v[i], "[]int16: same elements")
			}
		}
	case 1: // [2]uint8 / [3]int32
		v := [3]int32{lib.VerifInt32("e"), lib.VerifInt32("e"), lib.VerifInt32("e")}
		out, ok := rt(v, "[3]int32")
		lib.VerifAssert(!ok || out == v, "[3]int32: decoded value equals the encoded one")
	case 2: // map[string]int8
		var v map[string]int8
		switch lib.VerifPick("shape", 4) {
		case 1:
			v = map[string]int8{}
		case 2:
			v = map[string]int8{"a": int8(lib.VerifByte("e"))}
		case 3:
			v = map[string]int8{"a": int8(lib.VerifByte("e")), "bb": int8(lib.VerifByte("e"))}
		}
		out, ok := rt(v, "map")
		if ok {
			o, is := out.(map[string]int8)
			lib.VerifAssert(is && len(o) == len(v) && (o == nil) == (v == nil), "map: same size, nil and empty kept apart")
			for k, e := range v {
				oe, has := o[k]
				lib.VerifAssert(has && oe == e, "map: same entries")
			}
		}
	case 3: // []any with mixed content
		v := []any{lib.VerifInt("i"), "s", nil, lib.VerifBool("b")}
		out, ok := rt(v, "[]any")
		if ok {
			o, is := out.([]any)
			lib.VerifAssert(is && len(o) == 4, "[]any: same length")
			for i := 0; is && i < len(o) && i < 4; i++ {
				lib.VerifAssert(o[i] == v[i], "[]any: same elements with the same dynamic types")
			}
		}
	case 4: // registered struct
		v := c11Struct{A: lib.VerifInt32("a"), B: lib.VerifString("b", 1), G: [2]uint16{lib.VerifUint16("g"), 7}}
		switch lib.VerifPick("shape", 3) {
		case 1:
			v.C = []byte{lib.VerifByte("c")}
			v.D = lib.VerifUint16("d")
			v.E = errors.New("e")
			v.F = map[string]uint8{"k": lib.VerifByte("f")}
			v.H = []int16{1}
		case 2:
			v.C = []byte{}
			v.D = "str"
			v.F = map[string]uint8{}
			v.H = []int16{}
		}
		out, ok := rt(v, "struct")
		if ok {
			o, is := out.(c11Struct)
			lib.VerifAssert(is, "struct: decodes to the registered type")
			if is {
				lib.VerifAssert(o.A == v.A && o.B == v.B && o.G == v.G && o.D == v.D, "struct: scalar, array and any fields equal")
				lib.VerifAssert(len(o.C) == len(v.C) && len(o.H) == len(v.H) && len(o.F) == len(v.F), "struct: collection fields have the same size")
				lib.VerifAssert((o.H == nil) == (v.H == nil) && (o.F == nil) == (v.F == nil), "struct: nil and empty collections kept apart")
				lib.VerifAssert((o.E == nil) == (v.E == nil) && (o.E == nil || o.E.Error() == v.E.Error()), "struct: error field equal")
				for k, e := range v.F {
					lib.VerifAssert(o.F[k] == e, "struct: map field entries equal")
				}
				for i := range v.C {
					lib.VerifAssert(i < len(o.C) && o.C[i] == v.C[i], "struct: byte slice field equal")
				}
			}
		}
	case 5: // named type
		v := c11Named(lib.VerifUint16("n"))
		out, ok := rt(v, "named")
		lib.VerifAssert(!ok || out == v, "named type: decoded value has the same type and value")
	case 7: // registered map with interface-typed keys
		v := c11MapAny{"k": lib.VerifInt32("e")}
		if lib.VerifPick("shape", 2) == 1 {
			v[int8(3)] = lib.VerifInt32("e")
		}
		out, ok := rt(v, "registered map[any]T")
		if ok {
			o, is := out.(c11MapAny)
			lib.VerifAssert(is && len(o) == len(v), "registered map[any]T: same type and size")
			for k, e := range v {
				lib.VerifAssert(is && o[k] == e, "registered map[any]T: same entries")
			}
		}
	case 8: // registered map with interface-typed values, followed by a sibling value
		v := []any{c11MapStr{"k": lib.VerifInt32("e"), "s": "x"}, "after"}
		out, ok := rt(v, "registered map[K]any")
		if ok {
			o, is := out.([]any)
			lib.VerifAssert(is && len(o) == 2 && o[1] == "after", "registered map[K]any: the value behind it survives")
			if is && len(o) == 2 {
				m, isM := o[0].(c11MapStr)
				lib.VerifAssert(isM && len(m) == 2 && m["k"] == v[0].(c11MapStr)["k"] && m["s"] == "x", "registered map[K]any: same entries")
			}
		}
	case 9: // registered slice of any
		v := c11Slice{lib.VerifInt16("e"), "s", nil, c11Named(lib.VerifUint16("n"))}
		out, ok := rt(v, "registered []any")
		if ok {
			o, is := out.(c11Slice)
			lib.VerifAssert(is && len(o) == 4, "registered []any: same type and length")
			for i := 0; is && i < 4 && i < len(o); i++ {
				lib.VerifAssert(o[i] == v[i], "registered []any: same elements")
			}
		}
	case 10: // registered array of any
		v := c11Arr{lib.VerifUint32("e"), lib.VerifBool("b")}
		out, ok := rt(v, "registered [2]any")
		lib.VerifAssert(!ok || out == v, "registered [2]any: decoded value equals the encoded one")
	case 6: // nesting depth 2
		v := [][]uint8{{lib.VerifByte("x")}, nil, {}}
		out, ok := rt(v, "[][]uint8")
		if ok {
			o, is := out.([][]uint8)
			lib.VerifAssert(is && len(o) == 3 && len(o[0]) == 1 && o[0][0] == v[0][0] && len(o[1]) == 0 && len(o[2]) == 0, "[][]uint8: nested values equal")
		}
	}
	lib.VerifReach("round trip done")
}
