//go:build verif

package edf

import (
	"ergo.services/ergo/lib"
)

// c16HugeArray: the input contains an array type descriptor (edtArray + 4 length bytes) declaring
// more elements than the whole input has bytes.
func c16HugeArray(in []byte) bool {
	huge := false
	for i := 0; i+4 < len(in); i++ {
		n := uint32(in[i+1])<<24 | uint32(in[i+2])<<16 | uint32(in[i+3])<<8 | uint32(in[i+4])
		huge = huge || (in[i] == edtArray && n > uint32(len(in)))
	}
	return huge
}

// VerifC16Decode: every byte string up to the bound is given to the real edf.Decode: it returns a
// value or an error (no panic escapes), allocates in proportion to the input, and a value that
// decodes re-encodes to bytes that decode to an equal value.
func VerifC16Decode() {
	max := lib.VerifParam("maxbytes", 5)
	n := lib.VerifPick("len", max+1)
	in := lib.VerifBytes("in", n)
	if lib.VerifParam("arrayprefix", 0) == 1 {
		// steer into the array type descriptor: edtType, len 6, edtArray, <4 length bytes>, <element type>
		lib.VerifAssume(n >= 9 && in[0] == edtType && in[1] == 0 && in[2] == 6 && in[3] == edtArray)
		// the declared array length comes from a boundary set (a free 32-bit length cannot be unrolled)
		lens := []uint32{0, 1, 2, uint32(n), uint32(n) + 1, 70000, 1 << 24, 0xffffffff}
		al := lens[lib.VerifPick("arraylen", len(lens))]
		lib.VerifAssume(in[4] == byte(al>>24) && in[5] == byte(al>>16) && in[6] == byte(al>>8) && in[7] == byte(al))
	}
	switch lib.VerifParam("known:array-descriptor-alloc", 0) {
	case 1:
		lib.VerifAssume(!c16HugeArray(in))
	case 2:
		lib.VerifAssume(c16HugeArray(in))
	}
	lib.VerifAllocReset()
	v, tail, err := Decode(in, Options{})
	lib.VerifAssert(lib.VerifAllocMax() <= 65536+64*n, "decoding allocates in proportion to the input")
	if err != nil {
		lib.VerifReach("rejected")
		return
	}
	lib.VerifAssert(len(tail) <= n, "the tail is part of the input")
	if v == nil {
		lib.VerifReach("decoded nil")
		return
	}
	b := lib.TakeBuffer()
	if e := Encode(v, b, Options{}); e != nil {
		lib.VerifReach("decoded value not encodable")
		return
	}
	v2, tail2, err2 := Decode(b.B, Options{})
	lib.VerifAssert(err2 == nil && len(tail2) == 0, "a decoded value re-encodes to bytes that decode")
	if err2 == nil && lib.VerifParam("compare", 1) == 1 {
		lib.VerifAssert(c16Same(v, v2), "a decoded value re-encodes to bytes that decode to the same value")
	}
	lib.VerifReach("decoded and re-encoded")
}

func c16Same(a, b any) (same bool) {
	switch x := a.(type) {
	case []byte:
		y, ok := b.([]byte)
		if !ok || len(x) != len(y) {
			return false
		}
		for i := range x {
			if x[i] != y[i] {
				return false
			}
		}
		return true
	case error:
		y, ok := b.(error)
		return ok && x.Error() == y.Error()
	case float32, float64:
		return true // NaN payloads compare unequal to themselves; bit patterns are covered by C11
	}
	// slices and maps are not comparable with ==: their equality is the subject of C11
	defer func() {
		if recover() != nil {
			same = true
		}
	}()
	return a == b
}
