//go:build verif

package proto

import (
	"ergo.services/ergo/gen"
	"ergo.services/ergo/lib"
)

// VerifC13QueueWorkers (concurrency mode): two frames of one sender/receiver pair arrive on a link.
// The real serve pushes each into the receive queue and starts a worker when it can take the queue's
// lock; the real handleRecvQueue workers pop, decode and deliver, release the lock, look again and
// try to take it back. For every interleaving of the link reader with the workers: at most one worker
// is inside the queue at a time, every frame is delivered exactly once, in arrival order, and none is
// left behind once the link has been read.
func VerifC13QueueWorkers() {
	sender, sinks := vfConnection(&vfCore{name: "a@h", creation: 11}, "b@h", 22, 1)
	from := gen.PID{Node: "a@h", ID: 5, Creation: 11}
	to := gen.PID{Node: "b@h", ID: 6, Creation: 22}
	opts := gen.MessageOptions{KeepNetworkOrder: true}
	lib.VerifAssert(sender.SendPID(from, to, opts, int64(1)) == nil, "first send accepted")
	lib.VerifAssert(sender.SendPID(from, to, opts, int64(2)) == nil, "second send accepted")
	stream := sinks[0].all
	core := &vfCore{name: "b@h", creation: 22}
	r, _ := vfConnection(core, "a@h", 11, 1)
	in := 0
	last := 0
	var handled [3]int
	lib.VerifOverride("(*ergo.services/ergo/net/proto.vfCore).RouteSendPID", func(c *vfCore, f gen.PID, t gen.PID, o gen.MessageOptions, message any) error {
		v := lib.VerifSharedLoad(&in)
		lib.VerifAssert(v == 0, "one worker at a time delivers from a receive queue")
		lib.VerifSharedStore(&in, 1)
		k := 0
		if x, ok := message.(int64); ok && (x == 1 || x == 2) {
			k = int(x)
		}
		p := lib.VerifSharedLoad(&last)
		lib.VerifAssert(k > p, "frames of one pair are delivered in arrival order")
		lib.VerifSharedStore(&last, k)
		h := lib.VerifSharedLoad(&handled[k])
		lib.VerifAssert(h == 0, "a frame is delivered at most once")
		lib.VerifSharedStore(&handled[k], 1)
		lib.VerifSharedStore(&in, 0)
		return nil
	})
	done := 0
	lib.VerifGo("link", func() {
		r.serve(&vfConn{chunks: [][]byte{stream}, failAt: -1}, nil)
		lib.VerifSharedStore(&done, 1)
	})
	lib.VerifAtQuiescence(func() {
		if lib.VerifSharedLoad(&done) == 1 {
			a := lib.VerifSharedLoad(&handled[1])
			b := lib.VerifSharedLoad(&handled[2])
			lib.VerifAssert(a == 1 && b == 1, "every frame is delivered once the link has been read and the workers have finished")
		}
	})
}
