//go:build verif

package proto

import (
	"ergo.services/ergo/gen"
	"ergo.services/ergo/lib"
)

// VerifC15FlagGates: a connected peer asks this node to spawn a process or to start an application
// (the decoded request reaches the real routeMessage). Whether the request is handed to the core must
// follow this node's own flags for exactly that kind of request - remote spawn by EnableRemoteSpawn,
// remote application start by EnableRemoteApplicationStart (flags count only when customisation is
// enabled) - and the request is attributed to the connected peer, whatever the request says.
// Sender side: a request the peer's announced flags forbid is refused locally with ErrNotAllowed and
// nothing is written.
func VerifC15FlagGates() {
	core := &vfCore{name: "b@h", creation: 22}
	c, sinks := vfConnection(core, "a@h", 11, 1)
	fl := gen.NetworkFlags{
		Enable:                       lib.VerifBool("enable"),
		EnableRemoteSpawn:            lib.VerifBool("spawn"),
		EnableRemoteApplicationStart: lib.VerifBool("appstart"),
		EnableImportantDelivery:      lib.VerifBool("important"),
		EnableFragmentation:          lib.VerifBool("fragmentation"),
		EnableProxyTransit:           lib.VerifBool("transit"),
		EnableProxyAccept:            lib.VerifBool("accept"),
	}
	allowSpawn := !fl.Enable || fl.EnableRemoteSpawn
	allowApp := !fl.Enable || fl.EnableRemoteApplicationStart
	ref := gen.Ref{Node: "a@h", Creation: 11, ID: [3]uint64{5, 0, 0}}
	switch lib.VerifPick("side", 2) {
	case 0: // receiver
		c.node_flags = fl
		switch lib.VerifPick("request", 2) {
		case 0:
			c.routeMessage(MessageSpawn{Name: "worker", Ref: ref,
				Options: gen.ProcessOptionsExtra{ParentPID: gen.PID{Node: "x@other", ID: 1001, Creation: 3}}})
			n := 0
			for _, r := range core.calls {
				if r.kind == "appstart" {
					lib.VerifFail("a spawn request never starts an application")
				}
				if r.kind == "spawn" {
					n++
					lib.VerifAssert(r.toName.Node == "a@h", "a remote request is attributed to the connected peer")
				}
			}
			lib.VerifAssert(allowSpawn || n == 0, "remote spawn is honoured only if this node's EnableRemoteSpawn flag allows it")
			lib.VerifAssert(!allowSpawn || n == 1, "an allowed remote spawn request reaches the core exactly once")
			lib.VerifAssert(allowSpawn || len(sinks[0].frames) == 0, "a refused request is not answered with a result")
			lib.VerifReach("spawn request handled")
		case 1:
			c.routeMessage(MessageApplicationStart{Name: "app", Ref: ref, Mode: gen.ApplicationModeTemporary})
			n := 0
			for _, r := range core.calls {
				if r.kind == "spawn" {
					lib.VerifFail("an application start request never spawns a process")
				}
				if r.kind == "appstart" {
					n++
					lib.VerifAssert(r.toName.Node == "a@h", "a remote request is attributed to the connected peer")
				}
			}
			lib.VerifAssert(allowApp || n == 0, "remote application start is honoured only if this node's EnableRemoteApplicationStart flag allows it")
			lib.VerifAssert(!allowApp || n == 1, "an allowed remote application start request reaches the core exactly once")
			lib.VerifReach("application start request handled")
		}
	case 1: // sender: what the peer announced forbids the request
		c.peer_flags = fl
		switch lib.VerifPick("request", 2) {
		case 0:
			lib.VerifAssume(!allowSpawn)
			_, err := c.RemoteSpawn("worker", gen.ProcessOptionsExtra{})
			lib.VerifAssert(err == gen.ErrNotAllowed, "a spawn request the peer's flags forbid is refused locally")
		case 1:
			lib.VerifAssume(!allowApp)
			err := c.ApplicationStartPermanent("app", gen.ApplicationOptions{})
			lib.VerifAssert(err == gen.ErrNotAllowed, "an application start request the peer's flags forbid is refused locally")
		}
		lib.VerifAssert(len(sinks[0].frames) == 0, "a locally refused request is not sent")
		lib.VerifReach("forbidden request refused locally")
	}
}

// VerifC15EnvExposure: the requesting node's environment travels with a remote spawn / application
// start request only when the requester has switched the matching exposure option on. The request is
// produced by the real connection.Spawn / SpawnRegister / ApplicationStart, its bytes go through the
// peer's real serve/handleRecvQueue/EDF, and the options the peer's core is handed are inspected.
func VerifC15EnvExposure() {
	site := lib.VerifShard("site", 3)
	sCore := &vfCore{name: "a@h", creation: 11, env: map[gen.Env]any{"SECRET": "s3cr3t"}}
	sCore.security.ExposeEnvRemoteSpawn = lib.VerifBool("expose-spawn")
	sCore.security.ExposeEnvRemoteApplicationStart = lib.VerifBool("expose-appstart")
	s, sinks := vfConnection(sCore, "b@h", 22, 1)
	rCore := &vfCore{name: "b@h", creation: 22}
	r, _ := vfConnection(rCore, "a@h", 11, 1)
	// the answer never comes: the request ends with a timeout, which is not the subject here
	switch site {
	case 0:
		s.Spawn("worker", gen.ProcessOptions{})
	case 1:
		s.SpawnRegister("reg", "worker", gen.ProcessOptions{})
	case 2:
		s.ApplicationStart("app", gen.ApplicationOptions{})
	}
	lib.VerifAssert(len(sinks[0].frames) == 1, "the request is one frame")
	if len(sinks[0].frames) != 1 {
		return
	}
	c12Deliver(r, sinks[0].all, false)
	lib.VerifAssert(len(rCore.calls) == 1, "the request reaches the peer's core once")
	if len(rCore.calls) != 1 {
		return
	}
	switch site {
	case 0, 1:
		o, ok := rCore.calls[0].message.(gen.ProcessOptionsExtra)
		lib.VerifAssert(ok && rCore.calls[0].kind == "spawn", "a spawn request arrives as such")
		lib.VerifAssert((len(o.ParentEnv) > 0) == sCore.security.ExposeEnvRemoteSpawn, "the requester's environment travels with a remote spawn only when ExposeEnvRemoteSpawn is on")
	case 2:
		o, ok := rCore.calls[0].message.(gen.ApplicationOptionsExtra)
		lib.VerifAssert(ok && rCore.calls[0].kind == "appstart", "an application start request arrives as such")
		lib.VerifAssert((len(o.CoreEnv) > 0) == sCore.security.ExposeEnvRemoteApplicationStart, "the requester's environment travels with a remote application start only when ExposeEnvRemoteApplicationStart is on")
	}
	lib.VerifReach("exposure checked")
}
