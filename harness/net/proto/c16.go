//go:build verif

package proto

import (
	"ergo.services/ergo/lib"
)

// VerifC16Frames: an arbitrary byte string (symbolic content, symbolic length up to the bound)
// arrives on a link. The real serve/read/handleRecvQueue must end without a panic escaping a
// goroutine (that would crash the node), without hanging, without delivering more messages than
// frames were received and without allocating out of proportion to the input.
func VerifC16Frames() {
	max := lib.VerifParam("maxbytes", 12)
	n := lib.VerifPick("len", max+1)
	data := lib.VerifBytes("in", n)
	switch lib.VerifParam("known:short-frame", 0) {
	case 1:
		// exclusion: declared frame length >= 8
		if n >= 6 {
			lib.VerifAssume(data[2] != 0 || data[3] != 0 || data[4] != 0 || data[5] >= 8)
		}
	case 2:
		lib.VerifAssume(n >= 8 && data[2] == 0 && data[3] == 0 && data[4] == 0 && data[5] < 8)
	}
	if lib.VerifParam("magic", 0) == 1 && n >= 2 {
		// steer towards well-formed headers so that the parser is reached
		lib.VerifAssume(data[0] == protoMagic && data[1] == protoVersion)
	}
	core := &vfCore{name: "b@h", creation: 22}
	r, _ := vfConnection(core, "a@h", 11, 1)
	r.node_maxmessagesize = lib.VerifPick("limit", 2) * 64
	conn := &vfConn{chunks: [][]byte{data}, failAt: -1}
	lib.VerifAllocReset()
	r.serve(conn, nil)
	lib.VerifYield()
	lib.VerifAssert(conn.closed, "the link is closed once the stream ends or is refused")
	lib.VerifAssert(len(core.calls) <= 1+n/8, "no more deliveries than frames received")
	lib.VerifAssert(lib.VerifAllocMax() <= 8192+2*n, "allocations stay in proportion to the input")
	lib.VerifReach("input consumed")
}

// VerifC16Decompress: a compressed-message frame whose envelope declares an unpacked size taken from
// a boundary set (the data behind it is short): handling it must not allocate out of proportion to
// the frame, must not crash the node and delivers nothing.
func VerifC16Decompress() {
	decl := []uint32{0, 1, 8, 4096, 65536, 1 << 20, 1 << 26, 0xffffffff}
	d := decl[lib.VerifPick("declared", len(decl))]
	switch lib.VerifParam("known:decompress-declared-size", 0) {
	case 1:
		lib.VerifAssume(d <= 65536)
	case 2:
		lib.VerifAssume(d > 65536)
	}
	ctype := []byte{100, 101, 102}[lib.VerifPick("type", 3)] // lzw, zlib, gzip
	frame := []byte{protoMagic, protoVersion, 0, 0, 0, 17, 0, protoMessageZ, ctype,
		byte(d >> 24), byte(d >> 16), byte(d >> 8), byte(d), lib.VerifByte("z"), 0, 0, 0}
	core := &vfCore{name: "b@h", creation: 22}
	r, _ := vfConnection(core, "a@h", 11, 1)
	conn := &vfConn{chunks: [][]byte{frame}, failAt: -1}
	lib.VerifAllocReset()
	r.serve(conn, nil)
	lib.VerifYield()
	lib.VerifAssert(len(core.calls) == 0, "a frame that does not unpack delivers nothing")
	lib.VerifAssert(lib.VerifAllocMax() <= 65536+64*len(frame), "allocations stay in proportion to the input")
	lib.VerifReach("compressed frame handled")
}
