//go:build verif

package proto

import (
	"ergo.services/ergo/gen"
	"ergo.services/ergo/lib"
)

// VerifC16Frames: an arbitrary byte string (symbolic content, symbolic length up to the bound)
// arrives on a link. The real serve/read/handleRecvQueue must end without a panic escaping a
// goroutine (that would crash the node), without hanging, without delivering more messages than
// frames were received and without allocating out of proportion to the input.
func VerifC16Frames() {
	max := lib.VerifParam("maxbytes", 12)
	n := lib.VerifPick("len", max+1)
	data := lib.VerifBytes("in", n)
	switch lib.VerifParam("known:short-frame", 0) {
	case 1:
		// exclusion: declared frame length >= 8
		if n >= 6 {
			lib.VerifAssume(data[2] != 0 || data[3] != 0 || data[4] != 0 || data[5] >= 8)
		}
	case 2:
		lib.VerifAssume(n >= 8 && data[2] == 0 && data[3] == 0 && data[4] == 0 && data[5] < 8)
	}
	if lib.VerifParam("magic", 0) == 1 && n >= 2 {
		// steer towards well-formed headers so that the parser is reached
		lib.VerifAssume(data[0] == protoMagic && data[1] == protoVersion)
	}
	core := &vfCore{name: "b@h", creation: 22}
	r, _ := vfConnection(core, "a@h", 11, 1)
	r.node_maxmessagesize = lib.VerifPick("limit", 2) * 64
	conn := &vfConn{chunks: [][]byte{data}, failAt: -1}
	lib.VerifAllocReset()
	lib.VerifStepBound(2000000) // <= 20 bytes of input: handling it must come back
	r.serve(conn, nil)
	lib.VerifYield()
	lib.VerifStepBound(0)
	c16WorkersDone(r)
	lib.VerifAssert(conn.closed, "the link is closed once the stream ends or is refused")
	lib.VerifAssert(len(core.calls) <= 1+n/8, "no more deliveries than frames received")
	lib.VerifAssert(lib.VerifAllocMax() <= 8192+2*n, "allocations stay in proportion to the input")
	lib.VerifReach("input consumed")
}

// VerifC16Decompress: a compressed-message frame whose envelope declares an unpacked size taken from
// a boundary set (the data behind it is short): handling it must not allocate out of proportion to
// the frame, must not crash the node and delivers nothing.
func VerifC16Decompress() {
	decl := []uint32{0, 1, 8, 4096, 65536, 1 << 20, 1 << 26, 0xffffffff}
	d := decl[lib.VerifPick("declared", len(decl))]
	switch lib.VerifParam("known:decompress-declared-size", 0) {
	case 1:
		lib.VerifAssume(d <= 65536)
	case 2:
		lib.VerifAssume(d > 65536)
	}
	ctype := []byte{100, 101, 102}[lib.VerifPick("type", 3)] // lzw, zlib, gzip
	frame := []byte{protoMagic, protoVersion, 0, 0, 0, 17, 0, protoMessageZ, ctype,
		byte(d >> 24), byte(d >> 16), byte(d >> 8), byte(d), lib.VerifByte("z"), 0, 0, 0}
	core := &vfCore{name: "b@h", creation: 22}
	r, _ := vfConnection(core, "a@h", 11, 1)
	conn := &vfConn{chunks: [][]byte{frame}, failAt: -1}
	lib.VerifAllocReset()
	lib.VerifStepBound(2000000) // the frame is 17 bytes: handling it must come back
	r.serve(conn, nil)
	lib.VerifYield()
	lib.VerifStepBound(0)
	c16WorkersDone(r)
	lib.VerifAssert(len(core.calls) == 0, "a frame that does not unpack delivers nothing")
	lib.VerifAssert(lib.VerifAllocMax() <= 65536+64*len(frame), "allocations stay in proportion to the input")
	lib.VerifReach("compressed frame handled")
}

// VerifC16DeclaredSize: a genuine compressed frame (produced by the real sender with the real
// lzw/zlib/gzip compressor inside the executor) whose 4-byte unpacked-size field a hostile peer has
// rewritten: smaller than the real size (0, 1, real-1), equal, or slightly larger. The receiver's
// real handleRecvQueue/lib.Decompress* must come back (declared step bound), deliver the
// message only when the field is truthful, and never crash.
func VerifC16DeclaredSize() {
	ctype := []gen.CompressionType{gen.CompressionTypeLZW, gen.CompressionTypeZLIB, gen.CompressionTypeGZIP}[lib.VerifShard("type", 3)]
	n := 80
	payload := make([]byte, n)
	for i := range payload {
		payload[i] = byte(i * 7)
	}
	s, sinks := vfConnection(&vfCore{name: "a@h", creation: 11}, "b@h", 22, 1)
	rCore := &vfCore{name: "b@h", creation: 22}
	r, _ := vfConnection(rCore, "a@h", 11, 1)
	opts := gen.MessageOptions{Compression: gen.Compression{Enable: true, Type: ctype, Threshold: 16}}
	from := gen.PID{Node: "a@h", ID: 5, Creation: 11}
	to := gen.PID{Node: "b@h", ID: 6, Creation: 22}
	lib.VerifAssert(s.SendPID(from, to, opts, payload) == nil, "message sent")
	if len(sinks[0].frames) != 1 {
		return
	}
	f := append([]byte{}, sinks[0].frames[0]...)
	lib.VerifAssert(f[7] == protoMessageZ, "a payload above the threshold travels compressed")
	real := uint32(f[9])<<24 | uint32(f[10])<<16 | uint32(f[11])<<8 | uint32(f[12])
	decl := []uint32{0, 1, real - 1, real, real + 1, real + 4096}[lib.VerifPick("declared", 6)]
	f[9], f[10], f[11], f[12] = byte(decl>>24), byte(decl>>16), byte(decl>>8), byte(decl)
	// the receive worker is run on this goroutine (serve would start it with `go`), so that a worker
	// that never comes back is a hang of the harness itself, in the executor and natively alike
	buf := lib.TakeBuffer()
	buf.Append(f)
	q := r.recvQueues[0]
	q.Push(buf)
	lib.VerifAssert(q.Lock(), "the receive queue is free")
	lib.VerifStepBound(3000000)
	r.handleRecvQueue(q)
	lib.VerifStepBound(0)
	if decl == real {
		lib.VerifAssert(len(rCore.calls) == 1, "a truthful compressed frame is delivered")
	} else {
		lib.VerifAssert(len(rCore.calls) == 0, "a compressed frame whose declared size is wrong delivers nothing")
	}
	lib.VerifReach("declared size handled")
}

// c16WorkersDone: once the input has been consumed and everything has settled, every receive queue
// has been released by its worker. (In the executor a worker that never finishes shows up earlier, as
// an exceeded step bound; natively it runs on its own goroutine and is noticed here.)
func c16WorkersDone(r *connection) {
	for _, q := range r.recvQueues {
		if q.Lock() {
			q.Unlock()
		} else {
			lib.VerifFail("liveness: a receive worker is still busy after the input has been consumed")
		}
	}
}
