//go:build verif

package proto

import (
	"ergo.services/ergo/gen"
	"ergo.services/ergo/lib"
)

// c12Deliver feeds the byte stream, cut into up to three Read results at symbolic points, into the
// real serve/read of a receiver connection and lets the receive workers run.
func c12Deliver(r *connection, stream []byte, cuts bool) *vfConn {
	var chunks [][]byte
	if cuts && len(stream) > 1 {
		a := lib.VerifPick("cut1", len(stream)+1)
		b := lib.VerifPick("cut2", len(stream)+1)
		lib.VerifAssume(a <= b)
		for _, ch := range [][]byte{stream[:a], stream[a:b], stream[b:]} {
			if len(ch) > 0 {
				chunks = append(chunks, append([]byte{}, ch...))
			}
		}
	} else {
		chunks = [][]byte{stream}
	}
	conn := &vfConn{chunks: chunks, failAt: -1}
	r.serve(conn, nil)
	lib.VerifYield() // receive workers (handleRecvQueue goroutines) run
	return conn
}

// VerifC12Pipeline: one message of each kind goes through the real sender method, the bytes are
// cut arbitrarily into TCP segments (followed by a second frame back-to-back), and the real
// read/serve/handleRecvQueue of the receiver hands it to the node exactly once, to the addressee,
// with the true sender and an equal payload.
func VerifC12Pipeline() {
	kind := lib.VerifShard("kind", 8)
	sCore := &vfCore{name: "a@h", creation: 11}
	s, sinks := vfConnection(sCore, "b@h", 22, 1)
	rCore := &vfCore{name: "b@h", creation: 22}
	r, _ := vfConnection(rCore, "a@h", 11, 1)

	from := gen.PID{Node: "a@h", ID: lib.VerifUint64("from"), Creation: 11}
	toPID := gen.PID{Node: "b@h", ID: lib.VerifUint64("to"), Creation: 22}
	toName := gen.ProcessID{Name: "srv", Node: "b@h"}
	toAlias := gen.Alias{Node: "b@h", Creation: 22, ID: [3]uint64{lib.VerifUint64("a0"), lib.VerifUint64("a1"), lib.VerifUint64("a2")}}
	lib.VerifAssume(from.ID != 77) // 77 is the sender of the second, fixed frame
	prio := gen.MessagePriority(lib.VerifPick("priority", 3))
	payload := lib.VerifInt64("payload")
	ref := gen.Ref{Node: "a@h", Creation: 11, ID: [3]uint64{lib.VerifUint64("r0"), lib.VerifUint64("r1"), lib.VerifUint64("r2")}}
	opts := gen.MessageOptions{Priority: prio, KeepNetworkOrder: true, Ref: ref}

	var err error
	switch kind {
	case 0:
		err = s.SendPID(from, toPID, opts, payload)
	case 1:
		err = s.SendProcessID(from, toName, opts, payload)
	case 2:
		err = s.SendAlias(from, toAlias, opts, payload)
	case 3:
		err = s.CallPID(from, toPID, opts, payload)
	case 4:
		err = s.CallProcessID(from, toName, opts, payload)
	case 5:
		err = s.CallAlias(from, toAlias, opts, payload)
	case 6:
		opts.Ref.Node = "b@h" // a response answers a request made by the peer
		opts.Ref.Creation = 22
		err = s.SendResponse(from, toPID, opts, payload)
	case 7:
		err = s.SendExit(from, toPID, errVfRemote)
	}
	lib.VerifAssert(err == nil, "the sender accepts the message")
	// a second, different frame right behind the first one
	err = s.SendPID(gen.PID{Node: "a@h", ID: 77, Creation: 11}, gen.PID{Node: "b@h", ID: 88, Creation: 22}, gen.MessageOptions{}, int64(-5))
	lib.VerifAssert(err == nil, "the sender accepts the second message")
	stream := sinks[0].all

	conn := c12Deliver(r, stream, false)
	lib.VerifAssert(conn.closed, "the link is closed at end of stream")
	lib.VerifAssert(len(rCore.calls) == 2, "each frame is delivered to the node exactly once")
	if len(rCore.calls) != 2 {
		return
	}
	// the two frames may be handled by different workers: find ours by the sender id
	var got, other vfRoute
	if rCore.calls[0].from.ID == 77 && rCore.calls[0].toPID.ID == 88 && rCore.calls[0].kind == "send-pid" && rCore.calls[0].message == int64(-5) {
		got, other = rCore.calls[1], rCore.calls[0]
	} else {
		got, other = rCore.calls[0], rCore.calls[1]
	}
	lib.VerifAssert(other.kind == "send-pid" && other.from.ID == 77 && other.toPID.ID == 88 && other.message == int64(-5), "the second frame arrives intact and separate")
	lib.VerifAssert(got.from == gen.PID{Node: "a@h", ID: from.ID, Creation: 11}, "the receiver sees the true sender")
	wantPrio := prio
	switch kind {
	case 0:
		lib.VerifAssert(got.kind == "send-pid" && got.toPID == toPID, "delivered to the addressed process id")
	case 1:
		lib.VerifAssert(got.kind == "send-name" && got.toName == toName, "delivered to the addressed name")
	case 2:
		lib.VerifAssert(got.kind == "send-alias" && got.toAlias == toAlias, "delivered to the addressed alias")
	case 3:
		lib.VerifAssert(got.kind == "call-pid" && got.toPID == toPID && got.options.Ref == ref, "request reaches the addressed process id with its reference")
	case 4:
		lib.VerifAssert(got.kind == "call-name" && got.toName == toName && got.options.Ref == ref, "request reaches the addressed name with its reference")
	case 5:
		lib.VerifAssert(got.kind == "call-alias" && got.toAlias == toAlias && got.options.Ref == ref, "request reaches the addressed alias with its reference")
	case 6:
		lib.VerifAssert(got.kind == "response" && got.toPID == toPID && got.options.Ref == opts.Ref, "response reaches the caller with the request's reference")
	case 7:
		lib.VerifAssert(got.kind == "send-exit" && got.toPID == toPID && got.reason != nil && got.reason.Error() == errVfRemote.Error(), "exit signal reaches the addressed process with the reason")
		wantPrio = got.options.Priority
	}
	if kind != 7 {
		lib.VerifAssert(got.message == payload, "the payload arrives unchanged")
		lib.VerifAssert(got.options.Priority == wantPrio, "the priority arrives unchanged")
	}
	lib.VerifReach("delivered")
}

// VerifC12SizeLimit: a frame beyond the peer's limit is refused at the sender; a frame whose
// declared length exceeds the node's limit is refused by the receiver without being delivered.
func VerifC12SizeLimit() {
	sCore := &vfCore{name: "a@h", creation: 11}
	s, sinks := vfConnection(sCore, "b@h", 22, 1)
	limit := lib.VerifPick("limit", 4) * 20 // 0 (none), 20, 40, 60
	s.peer_maxmessagesize = limit
	n := lib.VerifPick("len", 3) * 15
	payload := lib.VerifBytes("p", n)
	from := gen.PID{Node: "a@h", ID: 5, Creation: 11}
	to := gen.PID{Node: "b@h", ID: 6, Creation: 22}
	err := s.SendPID(from, to, gen.MessageOptions{}, payload)
	frame := 33 + 5 + n // header + binary type byte + 4 length bytes + payload
	if limit > 0 && frame > limit {
		lib.VerifAssert(err == gen.ErrTooLarge, "a payload beyond the peer's limit is refused at the sender")
		lib.VerifAssert(len(sinks[0].frames) == 0, "a refused message puts nothing on the wire")
		lib.VerifReach("refused at sender")
		return
	}
	lib.VerifAssert(err == nil && len(sinks[0].frames) == 1 && len(sinks[0].frames[0]) == frame, "a payload within the limit is sent as one frame")
	rCore := &vfCore{name: "b@h", creation: 22}
	r, _ := vfConnection(rCore, "a@h", 11, 1)
	rl := lib.VerifPick("rlimit", 3) * 40 // 0, 40, 80
	r.node_maxmessagesize = rl
	c12Deliver(r, sinks[0].all, false)
	if rl > 0 && frame > rl {
		lib.VerifAssert(len(rCore.calls) == 0, "a frame beyond the node's limit is not delivered")
		lib.VerifReach("refused at receiver")
	} else {
		lib.VerifAssert(len(rCore.calls) == 1, "a frame within the limits is delivered once")
		if len(rCore.calls) == 1 {
			b, ok := rCore.calls[0].message.([]byte)
			lib.VerifAssert(ok && len(b) == n, "the payload arrives with its length")
			for i := 0; ok && i < n && i < len(b); i++ {
				lib.VerifAssert(b[i] == payload[i], "the payload arrives unchanged")
			}
		}
		lib.VerifReach("delivered")
	}
}

// VerifC12Important: an 'important' send is acknowledged with the very reference of the request and
// the result the node reported (nil when placed in the mailbox, otherwise the reason).
func VerifC12Important() {
	sCore := &vfCore{name: "a@h", creation: 11}
	s, sinks := vfConnection(sCore, "b@h", 22, 1)
	s.peer_flags.EnableImportantDelivery = true
	rCore := &vfCore{name: "b@h", creation: 22, scribble: true}
	r, rsinks := vfConnection(rCore, "a@h", 11, 1)
	r.node_flags.EnableImportantDelivery = lib.VerifPick("enabled", 2) == 1
	switch lib.VerifPick("result", 4) {
	case 1:
		rCore.result = gen.ErrProcessUnknown
	case 2:
		rCore.result = gen.ErrProcessMailboxFull
	case 3:
		rCore.result = gen.ErrProcessTerminated
	}
	from := gen.PID{Node: "a@h", ID: lib.VerifUint64("from"), Creation: 11}
	to := gen.PID{Node: "b@h", ID: lib.VerifUint64("to"), Creation: 22}
	refid := lib.VerifUint64("ref")
	important := lib.VerifPick("important", 2) == 1
	opts := gen.MessageOptions{ImportantDelivery: important, Ref: gen.Ref{Node: "a@h", Creation: 11, ID: [3]uint64{refid, 0, 0}}}
	kind := lib.VerifPick("kind", 3)
	var err error
	switch kind {
	case 0:
		err = s.SendPID(from, to, opts, int64(9))
	case 1:
		err = s.SendProcessID(from, gen.ProcessID{Name: "srv", Node: "b@h"}, opts, int64(9))
	case 2:
		err = s.SendAlias(from, gen.Alias{Node: "b@h", Creation: 22, ID: [3]uint64{1, 2, 3}}, opts, int64(9))
	}
	lib.VerifAssert(err == nil, "the sender accepts the message")
	c12Deliver(r, sinks[0].all, false)
	lib.VerifAssert(len(rCore.calls) == 1, "the message is delivered to the node exactly once")
	// the acknowledgement travels back: feed it to the sender's connection
	if !important || !r.node_flags.EnableImportantDelivery {
		lib.VerifAssert(len(rsinks[0].frames) == 0, "no acknowledgement unless the message is important and the node supports it")
		lib.VerifReach("no ack")
		return
	}
	lib.VerifAssert(len(rsinks[0].frames) == 1, "exactly one acknowledgement")
	if len(rsinks[0].frames) != 1 {
		return
	}
	c12Deliver(s, rsinks[0].all, false)
	lib.VerifAssert(len(sCore.calls) == 1, "the acknowledgement reaches the sender's node once")
	if len(sCore.calls) == 1 {
		ack := sCore.calls[0]
		lib.VerifAssert(ack.kind == "response-error", "the acknowledgement is a response-error message")
		lib.VerifAssert(ack.toPID.ID == from.ID, "the acknowledgement is addressed to the sender")
		lib.VerifAssert(ack.options.Ref.ID[0] == refid, "the acknowledgement carries the reference of the request")
		lib.VerifAssert(ack.reason == rCore.result, "the acknowledgement reports what the remote node answered")
	}
	lib.VerifReach("acknowledged")
}

// VerifC12Segmentation: two concrete frames back-to-back, cut into up to three Read results at every
// pair of positions: the real read/serve reassemble them for every segmentation.
func VerifC12Segmentation() {
	s, sinks := vfConnection(&vfCore{name: "a@h", creation: 11}, "b@h", 22, 1)
	rCore := &vfCore{name: "b@h", creation: 22}
	r, _ := vfConnection(rCore, "a@h", 11, 1)
	f1 := gen.PID{Node: "a@h", ID: 1001, Creation: 11}
	t1 := gen.PID{Node: "b@h", ID: 2002, Creation: 22}
	lib.VerifAssert(s.SendPID(f1, t1, gen.MessageOptions{KeepNetworkOrder: true}, int64(41)) == nil, "first frame sent")
	lib.VerifAssert(s.SendProcessID(f1, gen.ProcessID{Name: "srv", Node: "b@h"}, gen.MessageOptions{KeepNetworkOrder: true}, "xy") == nil, "second frame sent")
	conn := c12Deliver(r, sinks[0].all, true)
	lib.VerifAssert(conn.closed, "the link is closed at end of stream")
	lib.VerifAssert(len(rCore.calls) == 2, "each frame is delivered exactly once whatever the segmentation")
	if len(rCore.calls) == 2 {
		a, b := rCore.calls[0], rCore.calls[1]
		if a.kind != "send-pid" {
			a, b = b, a
		}
		lib.VerifAssert(a.kind == "send-pid" && a.from.ID == 1001 && a.toPID == t1 && a.message == int64(41), "first frame intact")
		lib.VerifAssert(b.kind == "send-name" && b.from.ID == 1001 && b.toName.Name == "srv" && b.message == "xy", "second frame intact")
	}
	lib.VerifReach("reassembled")
}

// VerifC14Incarnation: every connection method that addresses a remote process or alias refuses an
// identifier minted by another incarnation of the peer (creation differs) with ErrProcessIncarnation
// before a single byte is written, and never refuses one of the current incarnation for that reason.
func VerifC14Incarnation() {
	m := lib.VerifShard("method", 18)
	core := &vfCore{name: "a@h", creation: 11}
	c, sinks := vfConnection(core, "b@h", 22, 1)
	c.peer_flags.EnableImportantDelivery = true
	creation := lib.VerifInt64("creation")
	stale := creation != 22
	from := gen.PID{Node: "a@h", ID: 5, Creation: 11}
	pid := gen.PID{Node: "b@h", ID: lib.VerifUint64("id"), Creation: creation}
	alias := gen.Alias{Node: "b@h", Creation: creation, ID: [3]uint64{1, 2, 3}}
	opts := gen.MessageOptions{}
	var err error
	switch m {
	case 0:
		err = c.SendPID(from, pid, opts, int64(1))
	case 1:
		err = c.SendAlias(from, alias, opts, int64(1))
	case 2:
		err = c.SendExit(from, pid, errVfRemote)
	case 3:
		err = c.SendResponse(from, pid, opts, int64(1))
	case 4:
		err = c.SendResponseError(from, pid, opts, errVfRemote)
	case 5:
		err = c.CallPID(from, pid, opts, int64(1))
	case 6:
		err = c.CallAlias(from, alias, opts, int64(1))
	case 7:
		if !stale {
			return // the request would wait for the peer's answer; only the refusal is checked here
		}
		err = c.LinkPID(from, pid)
	case 8:
		if !stale {
			return
		}
		err = c.UnlinkPID(from, pid)
	case 9:
		if !stale {
			return
		}
		err = c.LinkAlias(from, alias)
	case 10:
		if !stale {
			return
		}
		err = c.UnlinkAlias(from, alias)
	case 11:
		if !stale {
			return
		}
		err = c.MonitorPID(from, pid)
	case 12:
		if !stale {
			return
		}
		err = c.DemonitorPID(from, pid)
	case 13:
		if !stale {
			return
		}
		err = c.MonitorAlias(from, alias)
	case 14:
		if !stale {
			return
		}
		err = c.DemonitorAlias(from, alias)
	case 15:
		// with the important flag the same rule applies
		opts.ImportantDelivery = true
		err = c.SendPID(from, pid, opts, int64(1))
	case 16:
		opts.ImportantDelivery = true
		err = c.SendAlias(from, alias, opts, int64(1))
	case 17:
		opts.ImportantDelivery = true
		err = c.CallPID(from, pid, opts, int64(1))
	}
	if stale {
		lib.VerifAssert(err == gen.ErrProcessIncarnation, "an identifier of another incarnation is refused with the incarnation error")
		lib.VerifAssert(len(sinks[0].frames) == 0, "nothing is written for a refused identifier")
		lib.VerifReach("stale identifier refused")
	} else {
		lib.VerifAssert(err != gen.ErrProcessIncarnation, "an identifier of the current incarnation is not refused as stale")
		lib.VerifAssert(err != nil || len(sinks[0].frames) == 1, "an accepted message is written")
		lib.VerifReach("current identifier accepted")
	}
}

// VerifC14RemoteTerminate: when a local target (process, name, alias, event) that remote processes
// link or monitor goes away, the notice sent over the connection reaches the peer's node naming the
// target (as seen from the peer) and carrying the reason - whatever the two nodes' incarnation
// numbers are.
func VerifC14RemoteTerminate() {
	kind := lib.VerifShard("kind", 4)
	ca := lib.VerifInt64("creationA")
	cb := lib.VerifInt64("creationB")
	lib.VerifAssume(ca > 0 && cb > 0)
	s, sinks := vfConnection(&vfCore{name: "a@h", creation: ca}, "b@h", cb, 1)
	rCore := &vfCore{name: "b@h", creation: cb}
	r, _ := vfConnection(rCore, "a@h", ca, 1)
	id := lib.VerifUint64("id")
	var err error
	switch kind {
	case 0:
		err = s.SendTerminatePID(gen.PID{Node: "a@h", ID: id, Creation: ca}, errVfRemote)
	case 1:
		err = s.SendTerminateProcessID(gen.ProcessID{Name: "srv", Node: "a@h"}, errVfRemote)
	case 2:
		err = s.SendTerminateAlias(gen.Alias{Node: "a@h", Creation: ca, ID: [3]uint64{id, 2, 3}}, errVfRemote)
	case 3:
		err = s.SendTerminateEvent(gen.Event{Name: "ev", Node: "a@h"}, errVfRemote)
	}
	lib.VerifAssert(err == nil, "the termination notice for a local target is sent")
	if err != nil {
		return
	}
	c12Deliver(r, sinks[0].all, false)
	lib.VerifAssert(len(rCore.calls) == 1, "the peer's node is told exactly once")
	if len(rCore.calls) != 1 {
		return
	}
	got := rCore.calls[0]
	lib.VerifAssert(got.reason != nil && got.reason.Error() == errVfRemote.Error(), "the notice carries the remote reason")
	switch kind {
	case 0:
		lib.VerifAssert(got.kind == "terminate-pid" && got.toPID == gen.PID{Node: "a@h", ID: id, Creation: ca}, "the notice names the terminated process")
	case 1:
		lib.VerifAssert(got.kind == "terminate-name" && got.toName == gen.ProcessID{Name: "srv", Node: "a@h"}, "the notice names the unregistered name")
	case 2:
		lib.VerifAssert(got.kind == "terminate-alias" && got.toAlias == gen.Alias{Node: "a@h", Creation: ca, ID: [3]uint64{id, 2, 3}}, "the notice names the deleted alias")
	case 3:
		lib.VerifAssert(got.kind == "terminate-event" && got.toName.Name == "ev" && got.toName.Node == "a@h", "the notice names the unregistered event")
	}
	lib.VerifReach("remote termination delivered")
}

// VerifC12Compress: with compression enabled (each algorithm) a payload either travels as a
// compressed frame that respects the peer's limit and unpacks to the identical payload at the
// receiver, or is refused with ErrTooLarge and nothing is written. The payload is concrete and
// incompressible (the compressors run inside the executor).
func VerifC12Compress() {
	ctype := []gen.CompressionType{gen.CompressionTypeLZW, gen.CompressionTypeZLIB, gen.CompressionTypeGZIP}[lib.VerifShard("type", 3)]
	n := []int{40, 150, 400}[lib.VerifPick("len", 3)]
	limit := []int{0, 120, 300}[lib.VerifPick("limit", 3)]
	payload := make([]byte, n)
	seed := uint32(2463534242)
	for i := range payload {
		seed ^= seed << 13
		seed ^= seed >> 17
		seed ^= seed << 5
		payload[i] = byte(seed >> 11)
	}
	s, sinks := vfConnection(&vfCore{name: "a@h", creation: 11}, "b@h", 22, 1)
	s.peer_maxmessagesize = limit
	rCore := &vfCore{name: "b@h", creation: 22}
	r, _ := vfConnection(rCore, "a@h", 11, 1)
	r.node_maxmessagesize = limit
	opts := gen.MessageOptions{Compression: gen.Compression{Enable: true, Type: ctype, Threshold: 64}}
	from := gen.PID{Node: "a@h", ID: 5, Creation: 11}
	to := gen.PID{Node: "b@h", ID: 6, Creation: 22}
	err := s.SendPID(from, to, opts, payload)
	if err != nil {
		lib.VerifAssert(err == gen.ErrTooLarge && limit > 0, "a send is refused only because it exceeds the peer's limit")
		lib.VerifAssert(len(sinks[0].frames) == 0, "a refused message puts nothing on the wire")
		lib.VerifReach("refused")
		return
	}
	lib.VerifAssert(len(sinks[0].frames) == 1, "an accepted message is one frame")
	if len(sinks[0].frames) != 1 {
		return
	}
	f := sinks[0].frames[0]
	lib.VerifAssert(limit == 0 || len(f) <= limit, "what is put on the wire respects the peer's limit")
	if n+38 > 64 {
		lib.VerifAssert(f[7] == protoMessageZ, "a payload above the threshold travels compressed")
	}
	c12Deliver(r, sinks[0].all, false)
	lib.VerifAssert(len(rCore.calls) == 1, "the compressed message is delivered exactly once")
	if len(rCore.calls) == 1 {
		b, ok := rCore.calls[0].message.([]byte)
		same := ok && len(b) == n
		for i := 0; same && i < n; i++ {
			same = b[i] == payload[i]
		}
		lib.VerifAssert(same && rCore.calls[0].from.ID == 5 && rCore.calls[0].toPID.ID == 6, "the payload arrives unchanged, from the true sender to the addressee")
	}
	lib.VerifReach("compressed delivery")
}

// c12SendBy calls one of the sender methods that carry a payload.
func c12SendBy(c *connection, m int, payload []byte) error {
	from := gen.PID{Node: "a@h", ID: 5, Creation: 11}
	pid := gen.PID{Node: "b@h", ID: 6, Creation: 22}
	alias := gen.Alias{Node: "b@h", Creation: 22, ID: [3]uint64{1, 2, 3}}
	name := gen.ProcessID{Name: "p", Node: "b@h"}
	opts := gen.MessageOptions{Ref: gen.Ref{Node: "a@h", Creation: 11, ID: [3]uint64{9, 0, 0}}}
	switch m {
	case 0:
		return c.SendPID(from, pid, opts, payload)
	case 1:
		return c.SendProcessID(from, name, opts, payload)
	case 2:
		return c.SendAlias(from, alias, opts, payload)
	case 3:
		return c.SendEvent(from, opts, gen.MessageEvent{Event: gen.Event{Name: "ev", Node: "a@h"}, Timestamp: 1, Message: payload})
	case 4:
		return c.SendResponse(from, pid, opts, payload)
	case 5:
		return c.CallPID(from, pid, opts, payload)
	case 6:
		return c.CallProcessID(from, name, opts, payload)
	}
	return c.CallAlias(from, alias, opts, payload)
}

// VerifC12LimitSites: every sender method that carries a payload (SendPID/ProcessID/Alias/Event,
// SendResponse, CallPID/ProcessID/Alias), with the limit the peer announced and this node's own
// receive limit set to different values: the message is refused (ErrTooLarge, nothing on the wire)
// exactly when its frame - as the same call produces it without any limit - is longer than the PEER's
// limit; this node's own limit plays no part in sending.
func VerifC12LimitSites() {
	m := lib.VerifShard("method", 8)
	n := []int{10, 90, 190}[lib.VerifPick("len", 3)]
	payload := lib.VerifBytes("p", n)
	// the frame this call produces when nothing limits it
	free, fs := vfConnection(&vfCore{name: "a@h", creation: 11}, "b@h", 22, 1)
	lib.VerifAssert(c12SendBy(free, m, payload) == nil && len(fs[0].frames) == 1, "without limits the message is sent as one frame")
	if len(fs[0].frames) != 1 {
		return
	}
	frame := len(fs[0].frames[0])
	c, sinks := vfConnection(&vfCore{name: "a@h", creation: 11}, "b@h", 22, 1)
	c.peer_maxmessagesize = []int{0, 100, 200}[lib.VerifPick("peerlimit", 3)]
	c.node_maxmessagesize = []int{0, 60, 400}[lib.VerifPick("ownlimit", 3)]
	err := c12SendBy(c, m, payload)
	tooLarge := c.peer_maxmessagesize > 0 && frame > c.peer_maxmessagesize
	if tooLarge {
		lib.VerifAssert(err == gen.ErrTooLarge, "a message beyond the peer's limit is refused at the sender")
		lib.VerifAssert(len(sinks[0].frames) == 0, "a refused message puts nothing on the wire")
		lib.VerifReach("refused")
		return
	}
	lib.VerifAssert(err == nil, "a message within the peer's limit is accepted whatever this node's own limit is")
	lib.VerifAssert(len(sinks[0].frames) == 1 && len(sinks[0].frames[0]) == frame, "an accepted message is the same single frame")
	lib.VerifReach("accepted")
}
