//go:build verif

package proto

import (
	"ergo.services/ergo/gen"
	"ergo.services/ergo/lib"
)

func c13Link(sinks []*vfSink, before []int) int {
	for i, s := range sinks {
		if len(s.frames) > before[i] {
			return i
		}
	}
	return -1
}

func c13Counts(sinks []*vfSink) []int {
	out := make([]int, len(sinks))
	for i, s := range sinks {
		out[i] = len(s.frames)
	}
	return out
}

// VerifC13SenderLink: with network order keeping on, two messages of one sender to one receiver
// travel over the same pooled link - for every pair of 64-bit process ids and every pool size -
// also when the pool grows between the two sends. Real SendPID/send; links are byte sinks.
func VerifC13SenderLink() {
	maxPool := lib.VerifParam("maxpool", 4)
	l1 := lib.VerifPick("pool", maxPool) + 1
	l2 := l1
	if lib.VerifParam("resize", 1) == 1 && lib.VerifPick("grow", 2) == 1 {
		l2 = l1 + 1 + lib.VerifPick("by", 2)
	}
	switch lib.VerifParam("known:pool-resize", 0) {
	case 1:
		lib.VerifAssume(l1 == l2)
	case 2:
		lib.VerifAssume(l1 != l2)
	}
	core := &vfCore{name: "a@h", creation: 11}
	c, sinks := vfConnection(core, "b@h", 22, l2)
	full := c.pool
	c.pool = full[:l1]
	from := gen.PID{Node: "a@h", ID: lib.VerifUint64("from"), Creation: 11}
	to := gen.PID{Node: "b@h", ID: lib.VerifUint64("to"), Creation: 22}
	switch lib.VerifParam("known:order-zero", 0) {
	case 1:
		lib.VerifAssume(from.ID%255 != 0)
	case 2:
		lib.VerifAssume(from.ID%255 == 0)
	}
	opts := gen.MessageOptions{KeepNetworkOrder: true}
	before := c13Counts(sinks)
	err := c.SendPID(from, to, opts, 1)
	lib.VerifAssert(err == nil, "first send accepted")
	first := c13Link(sinks, before)
	c.pool = full[:l2] // links may have been added meanwhile
	before = c13Counts(sinks)
	err = c.SendPID(from, to, opts, 2)
	lib.VerifAssert(err == nil, "second send accepted")
	second := c13Link(sinks, before)
	lib.VerifReach("two sends routed")
	lib.VerifAssert(first >= 0 && first == second, "two messages of one sender travel over the same link")
	// the order byte put on the wire is the same for both frames (receiver-side queue choice)
	f1 := sinks[first].frames[len(sinks[first].frames)-1]
	if second >= 0 {
		f2 := sinks[second].frames[len(sinks[second].frames)-1]
		lib.VerifAssert(len(f1) > 7 && len(f2) > 7 && f1[6] == f2[6], "both frames carry the same receiver order byte")
	}
}

// VerifC13ReceiverQueue: two frames for one receiver (order byte as the sender computes it for a
// symbolic 64-bit id) arriving over the same link are put into the same receive queue, in order -
// for every id and every pool size. Real SendPID -> bytes -> real serve/read; fake core.
func VerifC13ReceiverQueue() {
	maxPool := lib.VerifParam("maxpool", 3)
	links := lib.VerifPick("pool", maxPool) + 1
	sender, sinks := vfConnection(&vfCore{name: "a@h", creation: 11}, "b@h", 22, 1)
	from := gen.PID{Node: "a@h", ID: lib.VerifUint64("from"), Creation: 11}
	to := gen.PID{Node: "b@h", ID: lib.VerifUint64("to"), Creation: 22}
	switch lib.VerifParam("known:order-zero", 0) {
	case 1:
		lib.VerifAssume(to.ID%255 != 0)
	case 2:
		lib.VerifAssume(to.ID%255 == 0)
	}
	opts := gen.MessageOptions{KeepNetworkOrder: true}
	lib.VerifAssert(sender.SendPID(from, to, opts, 1) == nil, "first send accepted")
	lib.VerifAssert(sender.SendPID(from, to, opts, 2) == nil, "second send accepted")
	stream := sinks[0].all

	recvCore := &vfCore{name: "b@h", creation: 22}
	r, _ := vfConnection(recvCore, "a@h", 11, links)
	conn := &vfConn{chunks: [][]byte{stream}, failAt: -1}
	r.serve(conn, nil)
	lib.VerifAssert(conn.closed, "link closed at end of stream")
	qs := vfQueueContents(r)
	total := 0
	where := -1
	for i, q := range qs {
		total += len(q)
		if len(q) > 0 {
			lib.VerifAssert(where == -1, "both frames of one receiver land in one queue")
			where = i
		}
	}
	lib.VerifAssert(total == 2, "both frames are queued exactly once")
	if where >= 0 && len(qs[where]) == 2 {
		a, b := qs[where][0], qs[where][1]
		lib.VerifAssert(a.Len() > 33 && b.Len() > 33, "frames are complete")
		// payload of the first frame is 1, of the second 2 (last byte of the int encoding)
		lib.VerifAssert(a.B[a.Len()-1] == 1 && b.B[b.Len()-1] == 2, "frames are queued in arrival order")
	}
	lib.VerifReach("two frames queued")
}

// c13SendKind performs one send of the given kind from `from` to the process `to` (addressed by pid,
// by an alias of it, or by its registered name) with network order keeping on.
func c13SendKind(c *connection, k int, from, to gen.PID, aliasID uint64, n int, compress bool) error {
	alias := gen.Alias{Node: to.Node, Creation: to.Creation, ID: [3]uint64{7, aliasID, 9}}
	name := gen.ProcessID{Name: "p", Node: to.Node}
	opts := gen.MessageOptions{KeepNetworkOrder: true, Ref: gen.Ref{Node: from.Node, Creation: from.Creation, ID: [3]uint64{uint64(100 + n), 0, 0}}}
	if compress {
		opts.Compression = gen.Compression{Enable: true, Threshold: 0, Type: gen.CompressionTypeLZW}
	}
	switch k {
	case 0:
		return c.SendPID(from, to, opts, n)
	case 1:
		return c.SendProcessID(from, name, opts, n)
	case 2:
		return c.SendAlias(from, alias, opts, n)
	case 3:
		return c.SendExit(from, to, gen.TerminateReasonShutdown)
	case 4:
		return c.SendResponse(from, to, opts, n)
	case 5:
		return c.SendResponseError(from, to, opts, gen.ErrTimeout)
	case 6:
		return c.CallPID(from, to, opts, n)
	case 7:
		return c.CallProcessID(from, name, opts, n)
	}
	return c.CallAlias(from, alias, opts, n)
}

// VerifC13SenderKinds: every sender method that addresses one process (SendPID/ProcessID/Alias, SendExit,
// SendResponse/ResponseError, CallPID/ProcessID/Alias), in every pairing of two kinds, optionally
// compressed: two consecutive messages of one sender travel over the same pooled link, and each frame
// carries a non-zero receiver order byte (0 = "no order": round-robin over the receive queues), equal for
// two frames of the same kind. Ids whose residue mod 255 is 0 are excluded here: that class is the
// recorded open finding order-zero, decided by VerifC13SenderLink/VerifC13ReceiverQueue.
func VerifC13SenderKinds() {
	k1 := lib.VerifShard("kind", 9)
	k2 := lib.VerifPick("kind2", 9)
	pool := lib.VerifPick("pool", lib.VerifParam("maxpool", 4)) + 1
	compress := lib.VerifParam("compress", 0) == 1 && lib.VerifPick("z", 2) == 1
	core := &vfCore{name: "a@h", creation: 11}
	c, sinks := vfConnection(core, "b@h", 22, pool)
	from := gen.PID{Node: "a@h", Creation: 11}
	to := gen.PID{Node: "b@h", Creation: 22}
	var aliasID uint64
	if lib.VerifParam("idbits", 64) == 16 {
		// every residue mod 255 is reached by 16-bit ids; the full 64-bit range is the thorough tier
		from.ID, to.ID, aliasID = uint64(lib.VerifUint16("from")), uint64(lib.VerifUint16("to")), uint64(lib.VerifUint16("alias"))
	} else {
		from.ID, to.ID, aliasID = lib.VerifUint64("from"), lib.VerifUint64("to"), lib.VerifUint64("alias")
	}
	lib.VerifAssume(from.ID%255 != 0)
	lib.VerifAssume(to.ID%255 != 0)
	lib.VerifAssume(aliasID%255 != 0)
	before := c13Counts(sinks)
	lib.VerifAssert(c13SendKind(c, k1, from, to, aliasID, 1, compress) == nil, "first send accepted")
	first := c13Link(sinks, before)
	before = c13Counts(sinks)
	lib.VerifAssert(c13SendKind(c, k2, from, to, aliasID, 2, compress) == nil, "second send accepted")
	second := c13Link(sinks, before)
	lib.VerifReach("two sends of two kinds routed")
	lib.VerifAssert(first >= 0 && first == second, "two messages of one sender travel over the same link whatever their kinds")
	if first < 0 || second < 0 {
		return
	}
	f1 := sinks[first].frames[len(sinks[first].frames)-1]
	if first == second {
		f1 = sinks[first].frames[len(sinks[first].frames)-2]
	}
	f2 := sinks[second].frames[len(sinks[second].frames)-1]
	lib.VerifAssert(len(f1) > 7 && len(f2) > 7, "frames have a header")
	if len(f1) > 7 && len(f2) > 7 {
		lib.VerifAssert(f1[6] != 0 && f2[6] != 0, "an ordered message carries a non-zero receiver order byte")
		if k1 == k2 {
			lib.VerifAssert(f1[6] == f2[6], "two frames of one kind for one receiver carry the same order byte")
		}
	}
}
