//go:build verif

package proto

import (
	"errors"
	"io"
	"net"
	"sync"
	"time"

	"ergo.services/ergo/gen"
	"ergo.services/ergo/lib"
	"ergo.services/ergo/net/edf"
)

type vfLog struct{ gen.Log }

func (vfLog) Level() gen.LogLevel                 { return gen.LogLevelInfo }
func (vfLog) Trace(format string, args ...any)   {}
func (vfLog) Debug(format string, args ...any)   {}
func (vfLog) Info(format string, args ...any)    {}
func (vfLog) Warning(format string, args ...any) {}
func (vfLog) Error(format string, args ...any)   {}
func (vfLog) Panic(format string, args ...any)   {}

type vfRoute struct {
	kind     string
	from     gen.PID
	toPID    gen.PID
	toName   gen.ProcessID
	toAlias  gen.Alias
	options  gen.MessageOptions
	message  any
	reason   error
	event    gen.MessageEvent
}

// vfCore is a fake gen.Core that records what the connection delivers to the node.
type vfCore struct {
	gen.Core
	mu       sync.Mutex
	name     gen.Atom
	creation int64
	calls    []vfRoute
	result   error // returned by RouteSend*/RouteCall*
	security gen.SecurityOptions
	env      map[gen.Env]any
	refs     uint64
	scribble bool
}

func (c *vfCore) Name() gen.Atom                { return c.name }
func (c *vfCore) Creation() int64               { return c.creation }
func (c *vfCore) PID() gen.PID                  { return gen.PID{Node: c.name, ID: 1, Creation: c.creation} }
func (c *vfCore) Security() gen.SecurityOptions { return c.security }
func (c *vfCore) LogLevel() gen.LogLevel        { return gen.LogLevelInfo }
func (c *vfCore) EnvList() map[gen.Env]any      { return c.env }
func (c *vfCore) MakeRef() gen.Ref {
	c.refs++
	return gen.Ref{Node: c.name, Creation: c.creation, ID: [3]uint64{c.refs, 0, 0}}
}
func (c *vfCore) rec(r vfRoute) error {
	c.mu.Lock()
	c.calls = append(c.calls, r)
	c.mu.Unlock()
	if c.scribble && !lib.VerifSymbolic() {
		// native replay of the use-after-release model: the pooled buffer is reused by someone else
		var taken []*lib.Buffer
		for k := 0; k < 16; k++ {
			b := lib.TakeBuffer()
			b.Allocate(64)
			for i := range b.B {
				b.B[i] = 0xEE
			}
			taken = append(taken, b)
		}
		for _, b := range taken {
			lib.ReleaseBuffer(b)
		}
	}
	return c.result
}
func (c *vfCore) RouteSendPID(from gen.PID, to gen.PID, options gen.MessageOptions, message any) error {
	return c.rec(vfRoute{kind: "send-pid", from: from, toPID: to, options: options, message: message})
}
func (c *vfCore) RouteSendProcessID(from gen.PID, to gen.ProcessID, options gen.MessageOptions, message any) error {
	return c.rec(vfRoute{kind: "send-name", from: from, toName: to, options: options, message: message})
}
func (c *vfCore) RouteSendAlias(from gen.PID, to gen.Alias, options gen.MessageOptions, message any) error {
	return c.rec(vfRoute{kind: "send-alias", from: from, toAlias: to, options: options, message: message})
}
func (c *vfCore) RouteSendEvent(from gen.PID, token gen.Ref, options gen.MessageOptions, message gen.MessageEvent) error {
	return c.rec(vfRoute{kind: "send-event", from: from, options: options, event: message})
}
func (c *vfCore) RouteSendExit(from gen.PID, to gen.PID, reason error) error {
	return c.rec(vfRoute{kind: "send-exit", from: from, toPID: to, reason: reason})
}
func (c *vfCore) RouteSendResponse(from gen.PID, to gen.PID, options gen.MessageOptions, message any) error {
	return c.rec(vfRoute{kind: "response", from: from, toPID: to, options: options, message: message})
}
func (c *vfCore) RouteSendResponseError(from gen.PID, to gen.PID, options gen.MessageOptions, err error) error {
	return c.rec(vfRoute{kind: "response-error", from: from, toPID: to, options: options, reason: err})
}
func (c *vfCore) RouteCallPID(from gen.PID, to gen.PID, options gen.MessageOptions, message any) error {
	return c.rec(vfRoute{kind: "call-pid", from: from, toPID: to, options: options, message: message})
}
func (c *vfCore) RouteCallProcessID(from gen.PID, to gen.ProcessID, options gen.MessageOptions, message any) error {
	return c.rec(vfRoute{kind: "call-name", from: from, toName: to, options: options, message: message})
}
func (c *vfCore) RouteCallAlias(from gen.PID, to gen.Alias, options gen.MessageOptions, message any) error {
	return c.rec(vfRoute{kind: "call-alias", from: from, toAlias: to, options: options, message: message})
}
func (c *vfCore) RouteTerminatePID(target gen.PID, reason error) error {
	return c.rec(vfRoute{kind: "terminate-pid", toPID: target, reason: reason})
}
func (c *vfCore) RouteTerminateProcessID(target gen.ProcessID, reason error) error {
	return c.rec(vfRoute{kind: "terminate-name", toName: target, reason: reason})
}
func (c *vfCore) RouteTerminateAlias(target gen.Alias, reason error) error {
	return c.rec(vfRoute{kind: "terminate-alias", toAlias: target, reason: reason})
}
func (c *vfCore) RouteTerminateEvent(target gen.Event, reason error) error {
	return c.rec(vfRoute{kind: "terminate-event", toName: gen.ProcessID{Name: target.Name, Node: target.Node}, reason: reason})
}
func (c *vfCore) RouteSpawn(node gen.Atom, name gen.Atom, options gen.ProcessOptionsExtra, source gen.Atom) (gen.PID, error) {
	c.mu.Lock()
	c.calls = append(c.calls, vfRoute{kind: "spawn", toName: gen.ProcessID{Name: name, Node: source}, message: options})
	c.mu.Unlock()
	return gen.PID{Node: c.name, ID: 4242, Creation: c.creation}, c.result
}
func (c *vfCore) RouteApplicationStart(name gen.Atom, mode gen.ApplicationMode, options gen.ApplicationOptionsExtra, source gen.Atom) error {
	c.mu.Lock()
	c.calls = append(c.calls, vfRoute{kind: "appstart", toName: gen.ProcessID{Name: name, Node: source}, message: options})
	c.mu.Unlock()
	return c.result
}
func (c *vfCore) RouteNodeDown(node gen.Atom, reason error) {}

// vfSink collects what the connection writes to one pooled link.
type vfSink struct {
	frames [][]byte
	all    []byte
}

func (s *vfSink) Write(p []byte) (int, error) {
	cp := append([]byte{}, p...)
	s.frames = append(s.frames, cp)
	s.all = append(s.all, cp...)
	return len(p), nil
}

// vfConn is a fake net.Conn: Read hands out the scripted chunks, then io.EOF.
type vfConn struct {
	chunks [][]byte
	closed bool
	reads  int
	failAt int // Read call index that returns an error (-1: never)
}

func (c *vfConn) Read(p []byte) (int, error) {
	if c.failAt >= 0 && c.reads == c.failAt {
		c.reads++
		return 0, io.ErrUnexpectedEOF
	}
	c.reads++
	if len(c.chunks) == 0 {
		return 0, io.EOF
	}
	n := copy(p, c.chunks[0])
	if n < len(c.chunks[0]) {
		c.chunks[0] = c.chunks[0][n:]
	} else {
		c.chunks = c.chunks[1:]
	}
	return n, nil
}
func (c *vfConn) Write(p []byte) (int, error)        { return len(p), nil }
func (c *vfConn) Close() error                       { c.closed = true; return nil }
func (c *vfConn) LocalAddr() net.Addr                { return &net.TCPAddr{} }
func (c *vfConn) RemoteAddr() net.Addr               { return &net.TCPAddr{} }
func (c *vfConn) SetDeadline(t time.Time) error      { return nil }
func (c *vfConn) SetReadDeadline(t time.Time) error  { return nil }
func (c *vfConn) SetWriteDeadline(t time.Time) error { return nil }

// vfConnection builds a connection by hand with `links` pooled links writing into sinks.
func vfConnection(core *vfCore, peer gen.Atom, peerCreation int64, links int) (*connection, []*vfSink) {
	c := &connection{
		id:            "conn",
		core:          core,
		log:           vfLog{},
		node_flags:    gen.DefaultNetworkFlags,
		peer:          peer,
		peer_creation: peerCreation,
		peer_flags:    gen.DefaultNetworkFlags,
		pool_size:     links,
		encodeOptions: edf.Options{Cache: new(sync.Map)},
		decodeOptions: edf.Options{Cache: new(sync.Map)},
		requests:      make(map[gen.Ref]chan MessageResult),
	}
	var sinks []*vfSink
	for i := 0; i < links; i++ {
		s := &vfSink{}
		sinks = append(sinks, s)
		c.pool = append(c.pool, &pool_item{connection: &vfConn{failAt: -1}, fl: s})
	}
	n := links * 4
	if n == 0 {
		n = 4
	}
	for i := 0; i < n; i++ {
		c.recvQueues = append(c.recvQueues, lib.NewQueueMPSC())
	}
	return c, sinks
}

// queueOf returns the index of the receive queue holding buf-th pushed buffer (or -1) and its position.
func vfQueueContents(c *connection) [][]*lib.Buffer {
	out := make([][]*lib.Buffer, len(c.recvQueues))
	for i, q := range c.recvQueues {
		for it := q.Item(); it != nil; it = it.Next() {
			out[i] = append(out[i], it.Value().(*lib.Buffer))
		}
	}
	return out
}

var errVfRemote = errors.New("remote reason")
