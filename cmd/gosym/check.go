package main

import (
	"bytes"
	"context"
	"encoding/json"
	"fmt"
	"os"
	"os/exec"
	"path/filepath"
	"sort"
	"strconv"
	"strings"
	"sync"
	"time"

	"verif/engine"
)

// Entry is one harness function explored under fixed bounds.
type Entry struct {
	Pkg        string           // package directory relative to the repo root
	Func       string           // harness entry point
	Shards     int              // lib.VerifShard fan-out (separate executors, run in parallel)
	Params     map[string]int64 // bounds for the quick tier
	Thorough   map[string]int64 // overrides for the thorough tier
	TShards    int              // shard count in the thorough tier (0 = same)
	Solver     string
	MaxDec     int
	MaxSteps   int
	Tier       string // "" both, "thorough" only in thorough
	TimeoutS   int
	NoInit     bool
	Concurrent bool // concurrency mode: thread-modular unfolding + partial-order SMT encoding
	CSolver    string
	CPar       int    // solver processes the concurrency query is split over (0 = default)
	What       string // one line: what is encoded / asserted
}

// Check is everything run for one property.
type Check struct {
	ID      string
	Entries []Entry
	Level   string
}

// Finding is a recorded genuine defect (known_findings.json, never written at run time).
type Finding struct {
	Property string `json:"property"`
	Name     string `json:"name"`   // exclusion switch: lib.VerifParam("known:<name>")
	Entry    string `json:"entry"`  // harness function it belongs to
	Status   string `json:"status"` // "open" | "fixed"
	Commit   string `json:"commit,omitempty"`
	What     string `json:"what"`
}

type runResult struct {
	entry      Entry
	shard      int
	mode       string // "", "excl", "only:<name>"
	params     map[string]int64
	rep        *engine.Report
	x          *engine.Exec
	err        error
	seconds    float64
	queries    int
	sat        int
	unsat      int
	unknown    int
	solverS    float64
	funcs      []string
	stubs      []string
	assumes    map[string]int
	samples    []map[string]uint64
	maxdec     int
	skipped    map[string]int
	cmSchedule []string
}

func loadFindings(vdir string) []Finding {
	var fs []Finding
	b, err := os.ReadFile(filepath.Join(vdir, "known_findings.json"))
	if err != nil {
		return nil
	}
	var doc struct {
		Findings []Finding `json:"findings"`
	}
	if json.Unmarshal(b, &doc) == nil {
		fs = doc.Findings
	}
	return fs
}

func cmdCheck(args []string) int {
	if len(args) < 1 {
		fmt.Fprintln(os.Stderr, "usage: gosym check <ID> [quick|thorough]")
		return 2
	}
	id := args[0]
	tier := "quick"
	if len(args) > 1 {
		tier = args[1]
	}
	if t := os.Getenv("VERIF_TIER"); t != "" && len(args) < 2 {
		tier = t
	}
	seed, _ := strconv.Atoi(env("VERIF_SEED", "0"))
	repo := env("VERIF_REPO", "/repo")
	vdir := env("VERIF_DIR", "/verif")
	t0 := time.Now()

	var chk *Check
	for i := range Checks {
		if Checks[i].ID == id {
			chk = &Checks[i]
		}
	}
	if chk == nil {
		fmt.Fprintln(os.Stderr, "unknown check", id)
		return 2
	}
	os.MkdirAll(filepath.Join(vdir, "out", "replay"), 0o755)
	os.MkdirAll(filepath.Join(vdir, "evidence"), 0o755)

	// packages
	pkgSet := map[string]bool{}
	var entries []Entry
	for _, e := range chk.Entries {
		if e.Tier == "thorough" && tier != "thorough" {
			continue
		}
		entries = append(entries, e)
		pkgSet[e.Pkg] = true
	}
	var pkgs []string
	for p := range pkgSet {
		pkgs = append(pkgs, p)
	}
	sort.Strings(pkgs)
	ov, err := engine.OverlayFor(vdir, repo, pkgs)
	if err != nil {
		fmt.Fprintln(os.Stderr, "overlay:", err)
		return 2
	}
	var patterns []string
	for _, p := range pkgs {
		patterns = append(patterns, "./"+p)
	}
	tl := time.Now()
	ld, err := engine.Load(repo, patterns, ov)
	if err != nil {
		fmt.Fprintf(os.Stderr, "INCONCLUSIVE property=%s: %v\n", id, err)
		writeEvidence(vdir, id, tier, seed, nil, nil, nil, time.Since(t0).Seconds(), []string{"load failed: " + err.Error()}, 0)
		return 2
	}
	loadS := time.Since(tl).Seconds()
	for _, d := range ld.Dropped {
		if i := strings.Index(d, ": "); i > 0 {
			droppedHarness[d[:i]] = true
		}
		fmt.Fprintf(os.Stderr, "NOTE property=%s: harness file left out, it does not compile against this tree: %s\n", id, oneLine(d))
	}

	findings := loadFindings(vdir)
	openFor := func(entry string) []Finding {
		var out []Finding
		for _, f := range findings {
			if f.Property == id && f.Entry == entry && f.Status == "open" {
				out = append(out, f)
			}
		}
		return out
	}

	// build the job list
	type job struct {
		e      Entry
		shard  int
		mode   string
		params map[string]int64
	}
	var jobs []job
	for _, e := range entries {
		shards := e.Shards
		if tier == "thorough" && e.TShards > 0 {
			shards = e.TShards
		}
		if shards < 1 {
			shards = 1
		}
		base := map[string]int64{}
		for k, v := range e.Params {
			base[k] = v
		}
		if tier == "thorough" {
			for k, v := range e.Thorough {
				base[k] = v
			}
		}
		base["shards"] = int64(shards)
		of := openFor(e.Func)
		for s := 0; s < shards; s++ {
			if len(of) == 0 {
				jobs = append(jobs, job{e, s, "", base})
				continue
			}
			// (a) all recorded findings excluded: anything found here is new
			pa := map[string]int64{}
			for k, v := range base {
				pa[k] = v
			}
			for _, f := range of {
				pa["known:"+f.Name] = 1
			}
			jobs = append(jobs, job{e, s, "excl", pa})
			// (b) one run per finding restricted to its class
			for _, f := range of {
				pb := map[string]int64{}
				for k, v := range base {
					pb[k] = v
				}
				for _, g := range of {
					pb["known:"+g.Name] = 1
				}
				pb["known:"+f.Name] = 2
				jobs = append(jobs, job{e, s, "only:" + f.Name, pb})
			}
		}
	}

	budget := 20 * time.Minute
	if tier == "thorough" {
		budget = 3 * time.Hour
	}
	if b := os.Getenv("VERIF_BUDGET_S"); b != "" {
		if n, err := strconv.Atoi(b); err == nil {
			budget = time.Duration(n) * time.Second
		}
	}
	deadline := t0.Add(budget)

	results := make([]*runResult, len(jobs))
	sem := make(chan struct{}, 16)
	var wg sync.WaitGroup
	for i, j := range jobs {
		wg.Add(1)
		go func(i int, j job) {
			defer wg.Done()
			sem <- struct{}{}
			defer func() { <-sem }()
			results[i] = runJob(ld, j.e, j.shard, j.mode, j.params, deadline)
		}(i, j)
	}
	wg.Wait()

	// collect
	var inconcl []string
	type vrec struct {
		r *runResult
		v engine.Violation
	}
	var viols []vrec
	for _, r := range results {
		if r.err != nil {
			inconcl = append(inconcl, fmt.Sprintf("%s[%d]%s: %v", r.entry.Func, r.shard, r.mode, r.err))
			continue
		}
		for _, n := range r.rep.Inconcl {
			inconcl = append(inconcl, fmt.Sprintf("%s[%d]%s: %s", r.entry.Func, r.shard, r.mode, n))
		}
		for _, v := range r.rep.Violations {
			viols = append(viols, vrec{r, v})
		}
	}

	// replay: violations (one per entry/mode/tag) and one witness path per run
	type replayItem struct {
		entry  Entry
		file   string
		expect string // tag expected to fail, "" for a witness
		kind   string
		mode   string
		reach  map[string]int
		vi     int
	}
	var items []replayItem
	seenTag := map[string]bool{}
	for i, vr := range viols {
		key := vr.r.entry.Func + "|" + vr.r.mode + "|" + vr.v.Tag
		if seenTag[key] {
			continue
		}
		seenTag[key] = true
		f := filepath.Join(vdir, "out", "replay", fmt.Sprintf("%s-%s-%d.json", id, vr.r.entry.Func, i))
		if vr.r.entry.Concurrent {
			// a schedule, not an input vector: written out for the reader, not replayed natively
			os.WriteFile(f, []byte(fmt.Sprintf("{\"tag\": %q, \"schedule\": %q}\n", vr.v.Tag, vr.v.Where)), 0o644)
			continue
		}
		writeReplay(f, vr.v.Tag, vr.v.Inputs, vr.r.params, vr.r.shard)
		items = append(items, replayItem{entry: vr.r.entry, file: f, expect: vr.v.Tag, mode: vr.r.mode, vi: i})
	}
	witnessOf := map[string]bool{}
	for i, r := range results {
		if r.err != nil || len(r.samples) == 0 || witnessOf[r.entry.Func] || r.entry.Concurrent {
			continue
		}
		if len(r.rep.Violations) > 0 && r.mode == "" {
			continue
		}
		witnessOf[r.entry.Func] = true
		f := filepath.Join(vdir, "out", "replay", fmt.Sprintf("%s-%s-witness%d.json", id, r.entry.Func, i))
		writeReplay(f, "", r.samples[0], r.params, r.shard)
		items = append(items, replayItem{entry: r.entry, file: f, kind: "witness", mode: r.mode, vi: -1})
	}
	confirmed := map[int]string{}
	witnessOK, witnessBad := 0, 0
	var witnessNotes []string
	if len(items) > 0 && os.Getenv("VERIF_NOREPLAY") == "" {
		byPkg := map[string][]int{}
		for i, it := range items {
			byPkg[it.entry.Pkg] = append(byPkg[it.entry.Pkg], i)
		}
		var mu sync.Mutex
		var wg2 sync.WaitGroup
		for pkg, idx := range byPkg {
			wg2.Add(1)
			go func(pkg string, idx []int) {
				defer wg2.Done()
				funcs := map[string]bool{}
				for _, i := range idx {
					funcs[items[i].entry.Func] = true
				}
				witnessClean := func(sec string) bool {
					return strings.Contains(sec, "VERIF-REPLAY-END") && !strings.Contains(sec, "VERIF-ASSERT-FAILED") &&
						!strings.Contains(sec, "VERIF-PANIC") && !strings.Contains(sec, "VERIF-ASSUME-FAILED") && !strings.Contains(sec, "VERIF-HANG")
				}
				// native runs involve real goroutines and timers: an item that does not behave as the
				// model says is re-run (up to 3 attempts) before it counts as not reproduced
				results := map[int]string{}
				pending := idx
				for attempt := 0; attempt < 3 && len(pending) > 0; attempt++ {
					var plist []string
					for _, i := range pending {
						plist = append(plist, items[i].entry.Func+"="+items[i].file)
					}
					out := nativeReplay(vdir, repo, pkg, id, funcs, plist)
					var again []int
					for k, i := range pending {
						sec := section(out, k)
						results[i] = sec
						it := items[i]
						okNow := false
						if it.kind == "witness" {
							okNow = witnessClean(sec)
						} else {
							okNow = strings.HasPrefix(classify(sec, it.expect), "confirmed")
						}
						if !okNow {
							again = append(again, i)
						}
					}
					pending = again
				}
				mu.Lock()
				defer mu.Unlock()
				for _, i := range idx {
					it := items[i]
					sec := results[i]
					if it.kind == "witness" {
						if witnessClean(sec) {
							witnessOK++
						} else {
							witnessBad++
							witnessNotes = append(witnessNotes, fmt.Sprintf("witness of %s did not replay cleanly: %s", it.entry.Func, oneLine(sec)))
						}
						continue
					}
					confirmed[it.vi] = classify(sec, it.expect)
				}
			}(pkg, idx)
		}
		wg2.Wait()
	}

	// verdicts
	exit := 0
	nviol := 0
	knownPrinted := map[string]bool{}
	fmap := map[string]Finding{}
	for _, f := range findings {
		fmap[f.Name+"|"+f.Entry] = f
	}
	seenTag = map[string]bool{}
	for i, vr := range viols {
		key := vr.r.entry.Func + "|" + vr.r.mode + "|" + vr.v.Tag
		if seenTag[key] {
			continue
		}
		seenTag[key] = true
		c := confirmed[i]
		replayFile := filepath.Join(vdir, "out", "replay", fmt.Sprintf("%s-%s-%d.json", id, vr.r.entry.Func, i))
		if vr.r.entry.Concurrent {
			// the schedule has been re-run on the interpreted real code by the engine
			if strings.HasPrefix(vr.v.Confirmed, "confirmed") {
				fmt.Printf("VIOLATION property=%s replay=%s\n", id, replayFile)
				fmt.Printf("  entry=%s tag=%q (%s); schedule:\n", vr.r.entry.Func, vr.v.Tag, vr.v.Confirmed)
				for _, l := range strings.Split(vr.v.Where, "\n") {
					fmt.Println("    " + l)
				}
				exit = 1
				nviol++
			} else {
				fmt.Printf("UNCONFIRMED property=%s entry=%s tag=%q schedule=%s (%s)\n", id, vr.r.entry.Func, vr.v.Tag, replayFile, vr.v.Confirmed)
				inconcl = append(inconcl, fmt.Sprintf("the interleaving found for %q did not reproduce when the schedule was re-run (%s)", vr.v.Tag, vr.v.Confirmed))
			}
			continue
		}
		if os.Getenv("VERIF_NOREPLAY") != "" {
			c = "confirmed(no-replay)"
		}
		viols[i].v.Confirmed = c
		if strings.HasPrefix(vr.r.mode, "only:") {
			name := strings.TrimPrefix(vr.r.mode, "only:") + "|" + vr.r.entry.Func
			if strings.HasPrefix(c, "confirmed") {
				if !knownPrinted[name] {
					knownPrinted[name] = true
					fmt.Printf("KNOWN-FINDING: property=%s %s [%s; replay=%s]\n", id, fmap[name].What, vr.v.Tag, replayFile)
				}
			} else {
				inconcl = append(inconcl, fmt.Sprintf("known finding %s: model found but native replay says %q", name, c))
			}
			continue
		}
		if strings.HasPrefix(c, "confirmed") {
			fmt.Printf("VIOLATION property=%s replay=%s\n", id, replayFile)
			fmt.Printf("  entry=%s tag=%q inputs=%s\n", vr.r.entry.Func, vr.v.Tag, compactInputs(vr.v))
			exit = 1
			nviol++
		} else {
			fmt.Printf("UNCONFIRMED property=%s entry=%s tag=%q replay=%s native=%q\n", id, vr.r.entry.Func, vr.v.Tag, replayFile, c)
			inconcl = append(inconcl, fmt.Sprintf("counterexample for %q did not reproduce natively (%s)", vr.v.Tag, c))
		}
	}
	for _, n := range witnessNotes {
		inconcl = append(inconcl, n)
	}

	// vacuity: every entry must have at least one completed path and reach its tags
	for _, r := range results {
		if r.err == nil && r.rep.PathKinds["done"] == 0 && r.rep.PathKinds["violation-stop"] == 0 && !strings.HasPrefix(r.mode, "only:") {
			if r.rep.PathKinds["panic"]+r.rep.PathKinds["hang"]+r.rep.PathKinds["panic-goroutine"] == 0 {
				inconcl = append(inconcl, fmt.Sprintf("%s[%d]%s: no path ran to completion (vacuous)", r.entry.Func, r.shard, r.mode))
			}
		}
	}

	var rr []*runResult
	for _, r := range results {
		rr = append(rr, r)
	}
	var vv []engine.Violation
	for _, v := range viols {
		vv = append(vv, v.v)
	}
	wall := time.Since(t0).Seconds()
	writeEvidence(vdir, id, tier, seed, rr, vv, map[string]interface{}{
		"load_s": loadS, "witness_replayed_ok": witnessOK, "witness_replay_failed": witnessBad,
		"known_findings_reproduced": keys(knownPrinted),
	}, wall, inconcl, nviol)

	if exit == 0 && len(inconcl) > 0 {
		for _, n := range inconcl {
			fmt.Printf("INCONCLUSIVE property=%s: %s\n", id, oneLine(n))
		}
		return 2
	}
	if exit == 0 {
		tot := 0
		q := 0
		for _, r := range results {
			tot += r.rep.Paths
			q += r.queries
		}
		fmt.Printf("OK property=%s tier=%s entries=%d runs=%d paths=%d queries=%d wall=%.1fs\n", id, tier, len(entries), len(results), tot, q, wall)
	}
	return exit
}

func keys(m map[string]bool) []string {
	var out []string
	for k := range m {
		out = append(out, k)
	}
	sort.Strings(out)
	return out
}

func oneLine(s string) string {
	s = strings.ReplaceAll(s, "\n", " | ")
	if len(s) > 400 {
		s = s[:400] + "…"
	}
	return s
}

func compactInputs(v engine.Violation) string {
	var parts []string
	for _, k := range v.Order {
		parts = append(parts, fmt.Sprintf("%s=%d", k, v.Inputs[k]))
		if len(parts) > 24 {
			parts = append(parts, "…")
			break
		}
	}
	return strings.Join(parts, ",")
}

func runJob(ld *engine.Loaded, e Entry, shard int, mode string, params map[string]int64, deadline time.Time) *runResult {
	r := &runResult{entry: e, shard: shard, mode: mode, params: params}
	t0 := time.Now()
	p := ld.Pkgs["ergo.services/ergo/"+e.Pkg]
	if p == nil {
		r.err = fmt.Errorf("package %s not loaded", e.Pkg)
		return r
	}
	fn := p.Func(e.Func)
	if fn == nil {
		r.err = fmt.Errorf("harness entry %s not found", e.Func)
		return r
	}
	cfg := engine.Config{CPar: e.CPar, CSolver: e.CSolver, Solver: e.Solver, Shard: shard, MaxDecisions: e.MaxDec, MaxSteps: e.MaxSteps, Params: params, Deadline: deadline, TimeoutS: e.TimeoutS}
	x, err := engine.NewExec(ld.Prog, cfg)
	if err != nil {
		r.err = err
		return r
	}
	defer x.Close()
	if !e.NoInit {
		if err := x.RunInit(p); err != nil {
			r.err = err
			return r
		}
	}
	if e.Concurrent {
		cm := x.RunConcurrent(fn)
		rep := &engine.Report{Entry: fn.String(), Paths: cm.Stats.Paths, PathKinds: map[string]int{}, Reached: map[string]int{}, Inconcl: x.Inconcl}
		rep.PathKinds["done"] = cm.Stats.Paths
		rep.Reached[fmt.Sprintf("concurrency: %d threads, %d event nodes (%d reads, %d writes), %d unfolding passes, result %s, encode %.1fs solve %.1fs",
			cm.Stats.Threads, cm.Stats.Nodes, cm.Stats.Reads, cm.Stats.Writes, cm.Stats.Passes, cm.Stats.Result, cm.Stats.EncodeS, cm.Stats.SolveS)] = 1
		switch cm.Stats.Result {
		case "unsat":
		case "sat":
			rep.Violations = append(rep.Violations, engine.Violation{Tag: cm.BadTag, Inputs: map[string]uint64{}, Where: strings.Join(cm.Schedule, "\n"), Confirmed: cm.Replayed})
		default:
			rep.Inconcl = append(rep.Inconcl, "concurrency analysis: "+cm.Stats.Result)
		}
		if cm.Stats.Paths > 0 {
			x.Samples = append(x.Samples, map[string]uint64{"threads": uint64(cm.Stats.Threads), "event_nodes": uint64(cm.Stats.Nodes), "thread_paths": uint64(cm.Stats.Paths)})
		}
		r.rep = rep
		r.cmSchedule = cm.Schedule
	} else {
		r.rep = x.Explore(fn)
	}
	s := x.Solver()
	r.queries, r.sat, r.unsat, r.unknown, r.solverS = s.Queries, s.NSat, s.NUnsat, s.NUnknown, s.Seconds
	r.funcs = engine.SortedKeys(x.Funcs)
	r.stubs = engine.SortedKeys(x.Intrinsics)
	r.assumes = x.Assumes
	r.samples = x.Samples
	r.maxdec = x.MaxDepthDec
	r.seconds = time.Since(t0).Seconds()
	if len(s.Errors) > 0 {
		r.rep.Inconcl = append(r.rep.Inconcl, "solver error lines: "+oneLine(strings.Join(s.Errors, "; ")))
	}
	return r
}

func writeReplay(path, tag string, inputs map[string]uint64, params map[string]int64, shard int) {
	doc := map[string]interface{}{"tag": tag, "inputs": inputs, "params": params, "shard": shard}
	b, _ := json.MarshalIndent(doc, "", " ")
	os.WriteFile(path, b, 0o644)
}

// nativeReplay builds the real package with the harness overlay and runs the listed replays.
// droppedHarness: harness files (virtual paths) the loader left out because they no longer compile.
var droppedHarness = map[string]bool{}

func nativeReplay(vdir, repo, pkg, id string, funcs map[string]bool, list []string) string {
	var names []string
	for f := range funcs {
		names = append(names, f)
	}
	sort.Strings(names)
	pkgName := filepath.Base(pkg)
	if b, err := os.ReadFile(filepath.Join(vdir, "harness", pkg, "PKGNAME")); err == nil {
		pkgName = strings.TrimSpace(string(b))
	}
	var sb strings.Builder
	sb.WriteString("//go:build verif\n\npackage " + pkgName + "\n\nimport (\n\t\"fmt\"\n\t\"os\"\n\t\"strings\"\n\t\"testing\"\n\t\"time\"\n\n")
	if pkg != "lib" {
		sb.WriteString("\t\"ergo.services/ergo/lib\"\n)\n\n")
		sb.WriteString("var verifLoad = lib.VerifLoadReplay\nvar verifReached = func() map[string]int { return lib.VerifReached }\nfunc verifIsAssume(r any) bool { _, ok := r.(lib.VerifAssumeFailed); return ok }\n")
	} else {
		sb.WriteString(")\n\nvar verifLoad = VerifLoadReplay\nvar verifReached = func() map[string]int { return VerifReached }\nfunc verifIsAssume(r any) bool { _, ok := r.(VerifAssumeFailed); return ok }\n")
	}
	sb.WriteString("\nvar verifEntries = map[string]func(){\n")
	for _, n := range names {
		sb.WriteString(fmt.Sprintf("\t%q: %s,\n", n, n))
	}
	sb.WriteString(`}

func TestVerifReplay(t *testing.T) {
	for i, item := range strings.Split(os.Getenv("VERIF_REPLAY"), ";") {
		kv := strings.SplitN(item, "=", 2)
		fmt.Printf("VERIF-REPLAY-BEGIN %d %s\n", i, kv[0])
		if err := verifLoad(kv[1]); err != nil {
			fmt.Println("VERIF-LOAD-ERROR", err)
			continue
		}
		done := make(chan struct{})
		go func() {
			defer close(done)
			defer func() {
				if r := recover(); r != nil {
					if verifIsAssume(r) {
						fmt.Println("VERIF-ASSUME-FAILED")
					} else {
						fmt.Printf("VERIF-PANIC %v\n", r)
					}
				}
			}()
			verifEntries[kv[0]]()
		}()
		select {
		case <-done:
		case <-time.After(60 * time.Second):
			fmt.Println("VERIF-HANG")
		}
		for k := range verifReached() {
			fmt.Printf("VERIF-REACH %q\n", k)
		}
		fmt.Printf("VERIF-REPLAY-END %d\n", i)
	}
}
`)
	dir := filepath.Join(vdir, "out", "replay")
	testFile := filepath.Join(dir, fmt.Sprintf("%s_%s_replay_test.go", id, strings.ReplaceAll(pkg, "/", "_")))
	os.WriteFile(testFile, []byte(sb.String()), 0o644)
	repl := map[string]string{
		filepath.Join(repo, "lib", "zz_verif_rt.go"):        filepath.Join(vdir, "rt", "zz_verif_rt.go"),
		filepath.Join(repo, pkg, "zz_verif_replay_test.go"): testFile,
	}
	files, _ := filepath.Glob(filepath.Join(vdir, "harness", pkg, "*.go"))
	for _, f := range files {
		virt := filepath.Join(repo, pkg, "zz_verif_"+filepath.Base(f))
		if droppedHarness[virt] {
			continue // does not compile against this tree (see engine.Load)
		}
		repl[virt] = f
	}
	// source instrumentation for the native build (scripted clock / timers): textual replacements
	// applied to a copy of the package's current source files, listed in harness/<pkg>/INSTRUMENT.json
	if ib, err := os.ReadFile(filepath.Join(vdir, "harness", pkg, "INSTRUMENT.json")); err == nil {
		var rules map[string][][2]string
		if json.Unmarshal(ib, &rules) == nil {
			for file, subs := range rules {
				src, err := os.ReadFile(filepath.Join(repo, pkg, file))
				if err != nil {
					continue
				}
				txt := string(src)
				for _, sub := range subs {
					txt = strings.ReplaceAll(txt, sub[0], sub[1])
				}
				inst := filepath.Join(dir, fmt.Sprintf("%s_%s_inst_%s", id, strings.ReplaceAll(pkg, "/", "_"), file))
				os.WriteFile(inst, []byte(txt), 0o644)
				repl[filepath.Join(repo, pkg, file)] = inst
			}
		}
	}
	ovb, _ := json.Marshal(map[string]interface{}{"Replace": repl})
	ovFile := filepath.Join(dir, fmt.Sprintf("%s_%s_overlay.json", id, strings.ReplaceAll(pkg, "/", "_")))
	os.WriteFile(ovFile, ovb, 0o644)
	ctx, cancel := context.WithTimeout(context.Background(), 10*time.Minute)
	defer cancel()
	cmd := exec.CommandContext(ctx, "go", "test", "-tags", "verif", "-vet=off", "-count=1", "-overlay", ovFile,
		"-run", "^TestVerifReplay$", "-timeout", "9m", "-v", "./"+pkg)
	cmd.Dir = repo
	cmd.Env = append(os.Environ(), "GOFLAGS=-mod=mod", "GOPROXY=off", "GOSUMDB=off", "GOTOOLCHAIN=local",
		"VERIF_REPLAY="+strings.Join(list, ";"))
	var out bytes.Buffer
	cmd.Stdout = &out
	cmd.Stderr = &out
	cmd.Run()
	os.WriteFile(filepath.Join(dir, fmt.Sprintf("%s_%s_replay.log", id, strings.ReplaceAll(pkg, "/", "_"))), out.Bytes(), 0o644)
	return out.String()
}

// section returns the output between VERIF-REPLAY-BEGIN k and VERIF-REPLAY-END k (inclusive).
func section(out string, k int) string {
	b := fmt.Sprintf("VERIF-REPLAY-BEGIN %d ", k)
	i := strings.Index(out, b)
	if i < 0 {
		return "(no output; build failed?) " + lastLines(out, 6)
	}
	rest := out[i:]
	e := fmt.Sprintf("VERIF-REPLAY-END %d\n", k)
	j := strings.Index(rest, e)
	if j < 0 {
		return rest
	}
	return rest[:j+len(e)]
}

func lastLines(s string, n int) string {
	ls := strings.Split(strings.TrimSpace(s), "\n")
	if len(ls) > n {
		ls = ls[len(ls)-n:]
	}
	return strings.Join(ls, " | ")
}

func classify(sec, tag string) string {
	switch {
	case strings.Contains(sec, "VERIF-ASSUME-FAILED"):
		return "assume-failed"
	case strings.HasPrefix(tag, "uncaught"):
		if strings.Contains(sec, "VERIF-PANIC") || strings.Contains(sec, "panic:") || strings.Contains(sec, "fatal error:") {
			return "confirmed(panic)"
		}
	case tag == "hang":
		if strings.Contains(sec, "VERIF-HANG") || strings.Contains(sec, "all goroutines are asleep") {
			return "confirmed(hang)"
		}
		if strings.Contains(sec, "VERIF-ASSERT-FAILED tag=\"liveness:") {
			// the never-ending activity runs on a goroutine of its own natively: the harness's
			// liveness assertion notices it instead of the replay timing out
			return "confirmed(hang: still busy natively)"
		}
	default:
		if strings.Contains(sec, fmt.Sprintf("VERIF-ASSERT-FAILED tag=%q", tag)) {
			return "confirmed"
		}
	}
	return "not-reproduced: " + oneLine(sec)
}

func writeEvidence(vdir, id, tier string, seed int, rs []*runResult, viols []engine.Violation, extra map[string]interface{}, wall float64, inconcl []string, nviol int) {
	paths, queries, sat, unsat, unknown := 0, 0, 0, 0, 0
	solverS := 0.0
	funcs := map[string]bool{}
	stubs := map[string]bool{}
	assumes := map[string]bool{}
	reach := map[string]int{}
	var samples []interface{}
	var runs []interface{}
	kinds := map[string]int{}
	for _, r := range rs {
		if r == nil || r.rep == nil {
			continue
		}
		paths += r.rep.Paths
		queries += r.queries
		sat += r.sat
		unsat += r.unsat
		unknown += r.unknown
		solverS += r.solverS
		for _, f := range r.funcs {
			funcs[f] = true
		}
		for _, f := range r.stubs {
			stubs[f] = true
		}
		for a := range r.assumes {
			assumes[a] = true
		}
		for k, v := range r.rep.Reached {
			reach[k] += v
		}
		for k, v := range r.rep.PathKinds {
			kinds[k] += v
		}
		if len(samples) < 6 && len(r.samples) > 0 {
			samples = append(samples, map[string]interface{}{"entry": r.entry.Func, "shard": r.shard, "inputs_of_one_explored_path": r.samples[0]})
		}
		runs = append(runs, map[string]interface{}{
			"entry": r.entry.Func, "shard": r.shard, "mode": r.mode, "what": r.entry.What, "bounds": r.params,
			"paths": r.rep.Paths, "path_kinds": r.rep.PathKinds, "max_decisions_on_a_path": r.maxdec, "queries": r.queries,
			"solver": solverName(r.entry.Solver), "solver_s": round2(r.solverS), "wall_s": round2(r.seconds),
			"violations": len(r.rep.Violations),
		})
	}
	if len(samples) == 0 {
		samples = append(samples, "no completed path")
	}
	wit := 0
	if extra != nil {
		if w, ok := extra["witness_replayed_ok"].(int); ok {
			wit = w
		}
	}
	for _, v := range viols {
		if strings.HasPrefix(v.Confirmed, "confirmed") {
			wit++
		}
	}
	cov := map[string]interface{}{
		"states":                        max1(paths),
		"transitions":                   max1(queries),
		"traces_validated_against_impl": wit,
		"samples":                       samples,
		"explanation":                   "states = symbolic paths of the real code explored (each path covers every input satisfying its path condition); transitions = SMT queries discharged; traces_validated_against_impl = solver models (witness paths and counterexamples) replayed against the native build with the same outcome",
		"functions_encoded":             sortedKeys(funcs),
		"stubs_and_intrinsics":          sortedKeys(stubs),
		"assumptions_sites":             sortedKeys(assumes),
		"reach_tags":                    reach,
		"path_kinds":                    kinds,
		"queries":                       map[string]int{"total": queries, "sat": sat, "unsat": unsat, "unknown": unknown},
		"solver_seconds":                round2(solverS),
		"runs":                          runs,
		"violations_found":              viols,
		"inconclusive":                  inconcl,
	}
	for k, v := range extra {
		cov[k] = v
	}
	doc := map[string]interface{}{
		"property_id": id, "tier": tier, "seed": seed, "level": "model_checking", "coverage": cov,
		"assumptions": []string{
			"bounded: only the harness bounds listed under coverage.runs[].bounds are covered; nothing outside them is claimed",
			"environment stubs listed under coverage.stubs_and_intrinsics behave as documented (atomics, mutexes, sync.Map as a linearizable map, sync.Pool.Get = New(), clock = arbitrary non-decreasing instants, fmt as opaque text)",
			"sequential consistency; Go map iteration order is insertion order in the executor",
		},
		"wall_s": round2(wall), "violations": nviol,
	}
	b, _ := json.MarshalIndent(doc, "", " ")
	os.WriteFile(filepath.Join(vdir, "evidence", id+".json"), b, 0o644)
}

func solverName(s string) string {
	if s == "" {
		return "z3"
	}
	return s
}

func round2(f float64) float64 { return float64(int(f*100+0.5)) / 100 }

func max1(n int) int {
	if n < 1 {
		return 1
	}
	return n
}

func sortedKeys(m map[string]bool) []string {
	var out []string
	for k := range m {
		out = append(out, k)
	}
	sort.Strings(out)
	return out
}

func cmdSelftest(args []string) int { return 0 }
