package main

import (
	"encoding/json"
	"flag"
	"fmt"
	"os"
	"runtime/pprof"
	"strconv"
	"strings"

	"verif/engine"
)

func main() {
	if len(os.Args) < 2 {
		fmt.Fprintln(os.Stderr, "usage: gosym run|check ...")
		os.Exit(2)
	}
	if p := os.Getenv("GOSYM_CPUPROFILE"); p != "" {
		if f, err := os.Create(p); err == nil {
			pprof.StartCPUProfile(f)
			defer pprof.StopCPUProfile()
		}
	}
	switch os.Args[1] {
	case "run":
		cmdRun(os.Args[2:])
	case "check":
		os.Exit(cmdCheck(os.Args[2:]))
	case "manifest":
		os.Exit(cmdManifest(os.Args[2:]))
	case "selftest":
		os.Exit(cmdSelftest(os.Args[2:]))
	default:
		fmt.Fprintln(os.Stderr, "unknown command", os.Args[1])
		os.Exit(2)
	}
}

func env(k, d string) string {
	if v := os.Getenv(k); v != "" {
		return v
	}
	return d
}

func cmdRun(args []string) {
	fs := flag.NewFlagSet("run", flag.ExitOnError)
	pkg := fs.String("pkg", "node", "package directory relative to the repo root")
	entry := fs.String("entry", "", "harness function")
	solver := fs.String("solver", "z3", "z3|z3new|cvc5|cvc5int")
	trace := fs.Bool("trace", false, "print one line per path")
	params := fs.String("params", "", "k=v,k=v")
	shard := fs.Int("shard", 0, "")
	maxdec := fs.Int("maxdec", 0, "")
	conc := fs.Bool("concurrent", false, "concurrency mode")
	fs.Parse(args)
	repo := env("VERIF_REPO", "/repo")
	vdir := env("VERIF_DIR", "/verif")
	ov, err := engine.OverlayFor(vdir, repo, []string{*pkg})
	if err != nil {
		fmt.Fprintln(os.Stderr, err)
		os.Exit(2)
	}
	ld, err := engine.Load(repo, []string{"./" + *pkg}, ov)
	if err != nil {
		fmt.Fprintln(os.Stderr, err)
		os.Exit(2)
	}
	for _, d := range ld.Dropped {
		fmt.Fprintln(os.Stderr, "NOTE: harness file left out (does not compile against this tree):", d)
	}
	p := ld.Pkgs["ergo.services/ergo/"+*pkg]
	if p == nil {
		fmt.Fprintln(os.Stderr, "package not loaded")
		os.Exit(2)
	}
	fn := p.Func(*entry)
	if fn == nil {
		fmt.Fprintln(os.Stderr, "no such entry", *entry)
		os.Exit(2)
	}
	cfg := engine.Config{Solver: *solver, Trace: *trace, Shard: *shard, MaxDecisions: *maxdec, Params: map[string]int64{}}
	for _, kv := range strings.Split(*params, ",") {
		if i := strings.IndexByte(kv, '='); i > 0 {
			n, _ := strconv.ParseInt(kv[i+1:], 10, 64)
			cfg.Params[kv[:i]] = n
		}
	}
	x, err := engine.NewExec(ld.Prog, cfg)
	if err != nil {
		fmt.Fprintln(os.Stderr, err)
		os.Exit(2)
	}
	defer x.Close()
	if err := x.RunInit(p); err != nil {
		fmt.Fprintln(os.Stderr, "init:", err)
	}
	if *conc {
		cm := x.RunConcurrent(fn)
		fmt.Printf("result=%s threads=%d paths=%d nodes=%d reads=%d writes=%d passes=%d encode=%.1fs solve=%.1fs\n", cm.Stats.Result, cm.Stats.Threads, cm.Stats.Paths, cm.Stats.Nodes, cm.Stats.Reads, cm.Stats.Writes, cm.Stats.Passes, cm.Stats.EncodeS, cm.Stats.SolveS)
		for _, n := range x.Inconcl {
			fmt.Println("NOTE:", n)
		}
		if cm.Stats.Result == "sat" {
			fmt.Println("VIOLATION:", cm.BadTag)
			fmt.Println("REPLAY:", cm.Replayed)
			for _, l := range cm.Schedule {
				fmt.Println("  ", l)
			}
		}
		return
	}
	rep := x.Explore(fn)
	b, _ := json.MarshalIndent(rep, "", " ")
	fmt.Println(string(b))
	s := x.Solver()
	fmt.Fprintf(os.Stderr, "queries=%d sat=%d unsat=%d unknown=%d solver_s=%.2f funcs=%d\n", s.Queries, s.NSat, s.NUnsat, s.NUnknown, s.Seconds, len(x.Funcs))
}
