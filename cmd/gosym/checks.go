package main

// Checks is the registry: which harness entry points decide which property, under which bounds.
var Checks = []Check{
	{ID: "C06", Entries: []Entry{
		{Pkg: "node", Func: "VerifC06MakeRef", What: "real (*node).MakeRef at counter c0 and c0+d: references differ for every c0 < 2^62, 1 <= d < 2^62"},
	}},
}
