package main

// Checks is the registry: which harness entry points decide which property, under which bounds.
var Checks = []Check{
	{ID: "C02", Entries: []Entry{
		{Pkg: "node", Func: "VerifC02Send", What: "one local send by pid/name/alias with a fully symbolic priority to a target with symbolic state, mailbox bound (0/1/2), fill level and fallback configuration: success <=> queued exactly once (target queue chosen by priority, or fallback wrapped with recipient and tag); error => queued nowhere and truthful"},
	}},
	{ID: "C16", Entries: []Entry{
		{Pkg: "net/edf", Func: "VerifC16Decode", Params: map[string]int64{"maxbytes": 5}, Thorough: map[string]int64{"maxbytes": 7},
			What: "every byte string of length 0..N into the real edf.Decode: value or error, allocation in proportion, re-encode -> decode agrees"},
		{Pkg: "net/edf", Func: "VerifC16Decode", Params: map[string]int64{"maxbytes": 10, "arrayprefix": 1}, Thorough: map[string]int64{"maxbytes": 11, "arrayprefix": 1},
			What: "inputs starting with an array type descriptor (declared length from a boundary set, element type and data symbolic)"},
		{Pkg: "net/proto", Func: "VerifC16Frames", Params: map[string]int64{"maxbytes": 10}, Thorough: map[string]int64{"maxbytes": 16},
			What: "arbitrary bytes (symbolic content, length 0..N) into the real serve/read/handleRecvQueue: no panic escapes, no hang, deliveries <= frames, allocation in proportion"},
		{Pkg: "net/proto", Func: "VerifC16Frames", Params: map[string]int64{"maxbytes": 12, "magic": 1}, Thorough: map[string]int64{"maxbytes": 20, "magic": 1},
			What: "same with a well-formed magic/version prefix so that every message-type branch of the parser is reached"},
	}},
	{ID: "C12", Entries: []Entry{
		{Pkg: "net/proto", Func: "VerifC12Pipeline", Shards: 8, What: "one message per kind (SendPID/ProcessID/Alias, CallPID/ProcessID/Alias, SendResponse, SendExit) with symbolic ids, priority, reference and payload through the real sender method, then (with a second frame behind it) through the real serve/read/handleRecvQueue and real EDF into a fake core: exactly once, right addressee, true sender, equal payload"},
		{Pkg: "net/proto", Func: "VerifC12Segmentation", What: "two concrete frames cut into <=3 TCP segments at every pair of positions: read/serve reassemble them"},
		{Pkg: "net/proto", Func: "VerifC12SizeLimit", What: "peer_maxmessagesize at the sender and node_maxmessagesize at the receiver vs frame length (symbolic payload bytes)"},
		{Pkg: "net/proto", Func: "VerifC12Important", Params: map[string]int64{"havoc": 1}, What: "important delivery: acknowledgement iff flag and node support, with the request's reference and the remote result; pooled buffers are arbitrary after release (havoc)"},
	}},
	{ID: "C13", Entries: []Entry{
		{Pkg: "net/proto", Func: "VerifC13SenderLink", Params: map[string]int64{"maxpool": 4, "resize": 1}, Thorough: map[string]int64{"maxpool": 8},
			What: "real SendPID/send twice for symbolic 64-bit from/to ids over a pool of 1..N sink links (optionally grown in between): same link, same order byte"},
		{Pkg: "net/proto", Func: "VerifC13ReceiverQueue", Params: map[string]int64{"maxpool": 3}, Thorough: map[string]int64{"maxpool": 6},
			What: "two real frames for a symbolic receiver id through the real serve/read: same receive queue, arrival order kept"},
	}},
	{ID: "C11", Entries: []Entry{
		{Pkg: "net/edf", Func: "VerifC11Ints", Shards: 10, What: "real Encode -> Decode of every integer kind with a symbolic value"},
		{Pkg: "net/edf", Func: "VerifC11Scalars", Shards: 6, Params: map[string]int64{"maxlen": 3}, Thorough: map[string]int64{"maxlen": 8},
			What: "bool, float32/float64 bit patterns, string, []byte, gen.Atom with symbolic content and symbolic small length"},
		{Pkg: "net/edf", Func: "VerifC11Idents", Shards: 5, What: "gen.PID/ProcessID/Ref/Alias/Event with symbolic numeric fields, with and without atom cache (symbolic cache id) and atom mapping"},
		{Pkg: "net/edf", Func: "VerifC11Errors", Shards: 2, Params: map[string]int64{"maxlen": 2}, Thorough: map[string]int64{"maxlen": 3},
			What: "plain errors with symbolic text (any byte, incl. '%'), registered sentinel through the error cache with a symbolic id"},
		{Pkg: "net/edf", Func: "VerifC11StringLen", Shards: 4, MaxSteps: 40000000, What: "strings of length 65533..65536 (top of the accepted range; content one symbolic byte repeated)"},
		{Pkg: "net/edf", Func: "VerifC11Composite", Shards: 7, What: "[]T, [n]T, map[K]V, []any, registered struct with slice/map/any/error fields, named type, nesting; nil vs empty; with and without RegCache"},
	}},
	{ID: "C15", Entries: []Entry{
		{Pkg: "node", Func: "VerifC15AcceptorCookie", What: "real startAcceptor with and without an acceptor cookie (listener stubbed): the cookie demanded from incoming peers, size limit, flags"},
		{Pkg: "node", Func: "VerifC15Tables", Shards: 2, Params: map[string]int64{"ops": 3, "names": 1}, Thorough: map[string]int64{"ops": 4, "names": 2},
			What: "symbolic history of EnableSpawn/DisableSpawn (shard 0) or EnableApplicationStart/DisableApplicationStart (shard 1) with symbolic node lists, then getEnabledSpawn/isEnabledApplicationStart for every (name, peer): allowed => justified by an unrevoked Enable"},
	}},
	{ID: "C14", Entries: []Entry{
		{Pkg: "node", Func: "VerifC14NodeDown", Shards: 5, Params: map[string]int64{"relations": 3}, Thorough: map[string]int64{"relations": 4},
			What: "two local consumers hold a symbolic set of links/monitors on pid/name/alias/event/node targets on nodes x and y (real process API, fake connections), remote consumers on x hold links on a local process; then real RouteNodeDown(x) + CleanupNode: exactly one exit/down with ErrNoConnection per relation on x, y untouched, idempotent"},
	}},
	{ID: "C18", Entries: []Entry{
		{Pkg: "node", Func: "VerifC18Events", Shards: 3, Params: map[string]int64{"ops": 3}, Thorough: map[string]int64{"ops": 5},
			What: "producer + stranger + two consumers: symbolic history of publish (with/without token), link/unlink/monitor/demonitor on a real event with buffer 0..2 and Notify on/off, then unregister or owner termination; per-subscriber delivery once and in order, buffered snapshot, start/stop notifications, exit/down"},
	}},
	{ID: "C17", Entries: []Entry{
		{Pkg: "node", Func: "VerifC17Lifecycle", Shards: 3, Params: map[string]int64{"members": 1, "events": 3}, Tier: "", MaxDec: 0,
			What: "same harness, one member, three events: reaches stop -> start again -> termination (state and reason of a second run)"},
		{Pkg: "node", Func: "VerifC17Lifecycle", Shards: 3, Params: map[string]int64{"members": 2, "events": 2}, Thorough: map[string]int64{"members": 3, "events": 3},
			What: "real application.start/stop/terminate with real spawn/Kill/SendExit/process runner/unregisterProcess on a hand-built node, well-behaved fake members; symbolic failing member, member terminations, stop/force-stop, restart"},
	}},
	{ID: "C04", Entries: []Entry{
		{Pkg: "node", Func: "VerifC04History", Shards: 4, Params: map[string]int64{"ops": 3, "mix": 0}, Thorough: map[string]int64{"ops": 4, "mix": 1},
			What: "symbolic history of link/unlink/monitor/demonitor by two consumers on a target addressed by pid/name/alias/event (real process API, Route*, default target manager), then the target goes away (unregisterProcess, UnregisterName, DeleteAlias, UnregisterEvent): exactly one exit/down per relation held"},
	}},
	{ID: "C19", Entries: []Entry{
		{Pkg: "act", Func: "VerifC19Forward", Params: map[string]int64{"pool": 2, "messages": 2}, Thorough: map[string]int64{"pool": 3, "messages": 3},
			What: "real Pool.ProcessRun/forward on a fake process with symbolic per-attempt outcomes (delivered/unknown/terminated/full)"},
	}},
	{ID: "C03", Entries: []Entry{
		{Pkg: "node", Func: "VerifC02Send", What: "priority -> queue for every value of the priority (Max->urgent, High->system, anything else->main) in RouteSendPID/RouteSendProcessID/RouteSendAlias, incl. the fallback copy"},
		{Pkg: "act", Func: "VerifC03ActorOrder", Params: map[string]int64{"messages": 3}, Thorough: map[string]int64{"messages": 4},
			What: "real Actor.ProcessRun dequeue loop over the four real queues under a symbolic class assignment vs stable sort by class"},
	}},
	{ID: "C05", Entries: []Entry{
		{Pkg: "act", Func: "VerifC05ActorExit", What: "exit signal of each kind x trap x from-parent through the real Actor.ProcessRun: terminate with the signal's reason or handle as ordinary message"},
		{Pkg: "act", Func: "VerifC05ActorReason", Params: map[string]int64{"messages": 3}, What: "handler error becomes the termination reason; nothing handled afterwards or once not running"},
	}},
	{ID: "C08", Entries: []Entry{
		{Pkg: "act", Func: "VerifC08History", Shards: 18, Params: map[string]int64{"children": 2, "events": 3}, Thorough: map[string]int64{"children": 3, "events": 4},
			What: "real act.Supervisor (ProcessInit/ProcessRun/handleAction, supOFO/supARFO) on a fake gen.Process; symbolic history of child exits incl. a death during the stopping phase; restart scope, order, view consistency"},
		{Pkg: "act", Func: "VerifC08Significant", Shards: 12, Params: map[string]int64{"children": 2, "events": 2}, Thorough: map[string]int64{"children": 3, "events": 3},
			What: "significant children and auto-shutdown end the supervisor exactly as documented (type x {Transient,Temporary} x auto-shutdown, symbolic Significant flags)"},
	}},
	{ID: "C09", Entries: []Entry{
		{Pkg: "act", Func: "VerifC09Intensity", Params: map[string]int64{"calls": 4, "maxintensity": 2}, Thorough: map[string]int64{"calls": 6, "maxintensity": 4},
			What: "real supCheckRestartIntensity over k consecutive failures at symbolic instants vs the windowed-count reference"},
		{Pkg: "act", Func: "VerifC09Supervisor", Shards: 3, Params: map[string]int64{"children": 2, "failures": 3}, Thorough: map[string]int64{"children": 3, "failures": 4},
			What: "restart intensity through the real supervisor (one/all/rest-for-one, Intensity 1, Period 5 s, symbolic clock): restart within the limit, stop everything and end with ErrSupervisorRestartsExceeded beyond it"},
	}},
	{ID: "C06", Entries: []Entry{
		{Pkg: "node", Func: "VerifC06Release", Params: map[string]int64{"ops": 3}, Thorough: map[string]int64{"ops": 5},
			What: "symbolic history of RegisterName/UnregisterName/CreateAlias/DeleteAlias/RegisterEvent/UnregisterEvent/LinkPID/MonitorProcessID by one process, then real unregisterProcess: nothing resolves to it, identities reusable, no relation left (target or requester)"},
		{Pkg: "node", Func: "VerifC06Unique", Params: map[string]int64{"ops": 3}, Thorough: map[string]int64{"ops": 5},
			What: "two processes claim/release one name and one event name in a symbolic order: exactly one holder, table resolves to it"},
		{Pkg: "node", Func: "VerifC06MakeRef", What: "real (*node).MakeRef at counter c0 and c0+d: references differ for every c0 < 2^62, 1 <= d < 2^62"},
	}},
}
