package main

// Checks is the registry: which harness entry points decide which property, under which bounds.
var Checks = []Check{
	{ID: "C08", Entries: []Entry{
		{Pkg: "act", Func: "VerifC08History", Shards: 18, Params: map[string]int64{"children": 2, "events": 3}, Thorough: map[string]int64{"children": 3, "events": 4},
			What: "real act.Supervisor (ProcessInit/ProcessRun/handleAction, supOFO/supARFO) on a fake gen.Process; symbolic history of child exits incl. a death during the stopping phase; restart scope, order, view consistency"},
		{Pkg: "act", Func: "VerifC08Significant", Shards: 12, Params: map[string]int64{"children": 2, "events": 2}, Thorough: map[string]int64{"children": 3, "events": 3},
			What: "significant children and auto-shutdown end the supervisor exactly as documented (type x {Transient,Temporary} x auto-shutdown, symbolic Significant flags)"},
	}},
	{ID: "C09", Entries: []Entry{
		{Pkg: "act", Func: "VerifC09Intensity", Params: map[string]int64{"calls": 4, "maxintensity": 2}, Thorough: map[string]int64{"calls": 6, "maxintensity": 4},
			What: "real supCheckRestartIntensity over k consecutive failures at symbolic instants vs the windowed-count reference"},
		{Pkg: "act", Func: "VerifC09Supervisor", Shards: 3, Params: map[string]int64{"children": 2, "failures": 3}, Thorough: map[string]int64{"children": 3, "failures": 4},
			What: "restart intensity through the real supervisor (one/all/rest-for-one, Intensity 1, Period 5 s, symbolic clock): restart within the limit, stop everything and end with ErrSupervisorRestartsExceeded beyond it"},
	}},
	{ID: "C06", Entries: []Entry{
		{Pkg: "node", Func: "VerifC06MakeRef", What: "real (*node).MakeRef at counter c0 and c0+d: references differ for every c0 < 2^62, 1 <= d < 2^62"},
	}},
}
