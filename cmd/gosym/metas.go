package main

const bmcNote = "Bounded model checking by my own SSA->SMT executor: trusted base = go/ssa, the executor (validated by native replay of witness paths and of every counterexample), z3 4.8.12 / cvc5 1.0; environment stubs (atomics, mutexes, sync.Map as linearizable map, sync.Pool, symbolic clock, fmt as opaque text) behave as documented; only the bounds listed in the evidence file are covered."

// Metas: manifest texts per claimed property.
var Metas = map[string]Meta{
	"C06": {
		Text:      "(1) Every path of the real MakeRef is executed symbolically over a symbolic 64-bit counter and the solver shows that two references minted d calls apart differ for every c0 < 2^62 and 1 <= d < 2^62 (2^124 input pairs: the defect class - dropped counter bits - is invisible to any feasible number of test calls). (2) Symbolic histories of RegisterName/UnregisterName/CreateAlias/DeleteAlias/RegisterEvent/UnregisterEvent/Link/Monitor by one process, then the real unregisterProcess: nothing resolves to it, identities reusable, no relation left as target or requester; two processes claiming one name and one event in a symbolic order: exactly one holder. (3) Concurrency mode: RegisterName racing with the process's termination, process and name tables shared: once the process is gone its name resolves to nothing, for every interleaving. Four defects found here are fixed.",
		Note:      bmcNote,
		Technique: "symbolic execution of go/ssa + SMT (QF_BV) query per assertion; histories; thread-modular unfolding + partial-order encoding for the race; native replay / schedule replay",
		Design:    "DESIGN.md §4 C06",
	},
	"C01": {
		Text:      "Concurrency mode: the real RouteSendPID (table lookup, isAlive, lock-free Push, run), node.Kill and the runner goroutine of process.run (with its CAS protocol on the state word and the re-check of the four queues) are unfolded thread by thread into events on shared cells; SMT queries with integer clocks, read-from and atomicity constraints decide whether ANY interleaving lets two callbacks of the process overlap, handles a message twice, runs the terminate callback twice or runs anything after it. Bounds that complete: 1 sender with 0, 1 or 2 concurrent Kills, and a handler parked in the real waitResponse (state WaitResponse) while Kill races; one activation per runner goroutine (an unwinding query shows no interleaving needs more). A satisfiable query is a schedule, which is re-run on the interpreted real code (a gate before every shared access) and reported as VIOLATION only if that run fails the same assertion. The defect it found (second Kill of a busy process) is fixed and has a native reproducer.",
		Note:      bmcNote + " Sequential consistency; unregisterProcess is replaced by a counting stub in these entries (its own behaviour: C04/C06); schedules are confirmed on the interpreted real code, not on the native build. Two or more senders, two activations of one runner and meta-processes did not complete within the time budget and are outside the claim.",
		Technique: "thread-modular symbolic unfolding of go/ssa + partial-order SMT encoding of interleavings (integer clocks, read-from), unwinding check",
		Design:    "DESIGN.md §2.6, §4 C01 and the status section",
	},
	"C02": {
		Text:      "Three parts. (1) The real RouteSendPID/RouteSendProcessID/RouteSendAlias run symbolically against a target process whose state (sleeping, running, terminated, unknown), mailbox bound (unbounded, 1, 2), fill level and fallback configuration are all symbolic, with a fully symbolic priority value: success is reported exactly when the message sits in exactly one real queue (the one its priority selects, or the fallback's, wrapped with the original recipient and tag), an error means it sits nowhere and names the true cause. (2) Concurrency mode: one sender at Normal/High/Max priority against the runner goroutine, all interleavings: a send that reported success to a process that stays alive is handled exactly once. (3) The send-versus-falling-asleep window taken sequentially: a message lands (real RouteSendPID at a symbolic priority, or a log message) after the behaviour's last look at its queues and before the real runner's Running->Sleep transition; the runner's re-check must find it in whichever queue it is - handled without further traffic, process asleep with empty queues.",
		Note:      bmcNote + " The arbitrary-interleaving form of the lost-wake-up clause with two or more messages in flight did not complete in concurrency mode (no answer in 15 min) and is outside the claim; part (3) covers the window in its sequential form only. Over-admission of a bounded mailbox by concurrent producers is outside the statement.",
		Technique: "symbolic execution of go/ssa + SMT; thread-modular unfolding + partial-order SMT encoding for the concurrent entries; native replay / schedule replay",
		Design:    "DESIGN.md §4 C02",
	},
	"C03": {
		Text:      "The real dequeue loop of act.Actor runs symbolically over the four real MPSC queues holding M messages under a symbolic class assignment (urgent/system/main/log) and message kind; the handling order is compared with the stable sort by class for every assignment. (Per-producer FIFO of the lock-free queue under concurrent pushes and the priority->queue mapping for every priority value are added by further entries as they are built; the evidence file lists the entries actually run.)",
		Note:      bmcNote,
		Technique: "symbolic execution of go/ssa + SMT feasibility/assertion queries; native replay",
		Design:    "DESIGN.md §4 C03",
	},
	"C04": {
		Text:      "Sequential: real process API (Link/Unlink/Monitor/Demonitor for pid, registered name, alias, event), real Route* functions and the real default target manager run symbolically over every history of <=4 requests by two consumers, followed by every way the target can go away (process termination via the real unregisterProcess, UnregisterName, DeleteAlias, UnregisterEvent); the consumers' real mailboxes are then inspected: exactly one exit/down per relation held, with the reason, nothing otherwise, and no relation left behind. Concurrent: LinkPID / MonitorPID racing with the target's unregisterProcess, the process table (sync.Map) and the relation tables (behind the manager's RWMutex) shared through guarded-state cells; one SMT query over all interleavings: a request that succeeded is notified exactly once, one that failed never. The race defect this found is fixed.",
		Note:      bmcNote + " The concurrent entries cover requests by pid (one requester, one terminating target); name/alias/event requests use the same repaired code pattern but are only covered sequentially. Schedules are confirmed on the interpreted real code.",
		Technique: "symbolic execution of go/ssa over symbolic operation histories + SMT; thread-modular unfolding with lock-guarded state cells + partial-order SMT encoding; native replay / schedule replay",
		Design:    "DESIGN.md §4 C04",
	},
	"C05": {
		Text:      "act.Actor.ProcessRun is executed symbolically for every exit-signal kind x trap flag x sender (parent or not) x reason class, and for a handler returning an error at a symbolic position: termination reason, trapped-signal re-dispatch and 'nothing handled afterwards' are asserted on every path. (The concurrent half - causes racing on the process state word - is added by the concurrency entries when present in the evidence.) Node level (sequential): a process ending by handler error, handler panic (the real recover path of process.run) or node.Kill while asleep gets its terminate callback exactly once with the matching reason, refuses later sends, is gone from the node, and its linked and monitoring processes are each told that reason once. Concurrency mode: failing handler racing Kill, two Kills, and Kill while the handler is parked in waitResponse.",
		Note:      bmcNote,
		Technique: "symbolic execution of go/ssa + SMT; native replay",
		Design:    "DESIGN.md §4 C05",
	},
	"C10": {
		Text:      "Decided as an inductive argument whose lemmas are each a bounded solver check on the real code: (L1) every child started by Supervisor.handleAction and Pool carries LinkParent; (L2) node.spawn with LinkParent adds the child->parent link before the child can run; (L3) the parent's termination (any reason class, or Kill) delivers exactly one exit signal from the parent to every link holder; (L4) the standard behaviours terminate on an exit from the parent whatever the trap flag; (L5) a supervisor returns its own termination reason only after every child is gone; (L6) application stop and graceful node stop return success only after every member/process has terminated, each exactly once (real spawn, Kill, SendExit, runner goroutine, unregisterProcess, wait group).",
		Note:      bmcNote + " The composition of the lemmas into 'no orphan in any tree' is an argument, not a whole-system run: arbitrary trees, raw behaviours that ignore exit signals and kill points inside a live tree are outside.",
		Technique: "symbolic execution of go/ssa per lemma + SMT; native replay",
		Design:    "DESIGN.md §4 C10",
	},
	"C20": {
		Text:      "Matcher: for specs of a bounded crontab grammar (every item form per field, incl. steps, L, dL, d#n; parsed by the real cronParseSpec inside the executor) the real cronSpecMask.IsRunAt runs on top of the real time.Time methods at a symbolic instant and is compared with a branch-free reference over civil fields. Minute/hour fields: any instant 2000..2100 in UTC and two fixed-offset zones. Hour and date fields: the civil month of the job's zone is enumerated (2000-02, 2100-02, 2038-01, 1999-12 and then consecutive months from 2023-01; quick 48 months in all, thorough 64), the instant inside it is symbolic; zones UTC and Europe/Berlin (daylight saving, zone data embedded and parsed by the real time.LoadLocationFromTZData); thorough adds lists of two and the day OR weekday rule. Scheduler: the spool for the coming minute after a symbolic history of AddJob/EnableJob/DisableJob/RemoveJob (queued exactly once iff present, enabled and matching), and one tick of the real timer callback under a clock that stands still, creeps or jumps a minute between any two of its reads (timer re-armed, at most one run per job, none when disabled). Four defects found here are fixed.",
		Note:      bmcNote + " time.absDate is answered by a month-table summary when the path condition confines its argument to <=5 months (engine/timesum.go; validated by a unit test against the time package and by the native witness replay); solver: z3 with a 400 ms budget per query, then cvc5 int-blasting. Native replay of the tick entry builds node/cron.go with its clock and timer calls redirected by source instrumentation. Schedule/JobSchedule (loops over the same matcher) and zones with daylight saving other than Europe/Berlin are outside; the reference uses the time package for the civil fields.",
		Technique: "symbolic execution of go/ssa (incl. stdlib time) + SMT: QF_BV with z3, int-blasted BV with cvc5; differential against a reference; native replay",
		Design:    "DESIGN.md §4 C20",
	},
	"C11": {
		Text:      "The real edf.Encode and edf.Decode (getEncoder/decodeType closures, all leaf codecs, registered struct/named types, atom/reg/error caches) run symbolically on top of an executor-level model of package reflect; the value is symbolic (all bits of every integer/float kind, every byte of strings/binaries/atoms/error texts, identifier fields, cache ids) and shapes are enumerated (lengths 0..8, element counts <=2, nil vs empty, nesting depth 2, lengths 65533..65536 for strings). Assertion: the encoder accepts the value, the decoder returns an equal value of the same dynamic type and an empty tail; unrepresentable values are rejected by the encoder.",
		Note:      bmcNote + " reflect is modelled by the executor (reflect.Value/Type methods over go/types and executor values, listed under stubs); time.Time, custom marshalers and >4 GiB binaries are outside.",
		Technique: "symbolic execution of go/ssa with a reflect model + SMT (QF_BV); native replay",
		Design:    "DESIGN.md §4 C11",
	},
	"C12": {
		Text:      "A message of each kind (send by pid/name/alias, call by pid/name/alias, response, exit) with symbolic 64-bit ids, priority, reference and payload is executed symbolically through the real sender method of one connection, the produced bytes (with a second frame behind them) through the real serve/read/handleRecvQueue and the real EDF codec of a second connection into a fake core: delivered exactly once, to the addressee, with the true sender, equal payload and options. Segmentation: every way of cutting two frames into <=3 TCP segments. Size limits at sender and receiver with symbolic payloads; important-delivery acknowledgement with the request's reference and the remote result, with pooled buffers treated as arbitrary after release. Limit sites: each of the 8 sender methods that carry a payload, with the peer's announced limit and this node's own limit set to different values, refuses exactly when the frame exceeds the peer's limit.",
		Note:      bmcNote + " Compression algorithms, the flusher timer, proxies/fragmentation and buffers beyond 8 KiB are outside; links are in-memory sinks.",
		Technique: "symbolic execution of go/ssa (sender -> bytes -> receiver pipeline) + SMT (QF_BV); native replay",
		Design:    "DESIGN.md §4 C12",
	},
	"C16": {
		Text:      "Untrusted input is a symbolic byte string with a symbolic small length: it is fed to the real serve/read/handleRecvQueue (frame parser; with and without a well-formed magic/version prefix so every message-type branch is reached), to the real edf.Decode (plus a targeted family starting with an array type descriptor), to the decompression path with declared sizes from a boundary set, and to the real handshake readMessage in up to three arbitrary pieces followed by a silent peer. The executor reports any panic that escapes a goroutine (node crash), any deadlock, any path that exceeds a declared step bound (spinning; confirmed natively by a 60 s time-out) and the largest single allocation; assertions: deliveries <= frames, reads <= pieces+1 and never without a deadline, allocation in proportion to the input, decoded values re-encode to bytes that decode equal. Two recorded findings (array descriptor length, declared unpacked size) are excluded by their exact predicates and reproduced on every run. Declared size: genuine lzw/zlib/gzip frames produced by the real sender with the unpacked-size field rewritten (0, 1, real-1, real, real+1, real+4096) through the real receive worker: it comes back within a declared step bound and delivers only when the field is truthful.",
		Note:      bmcNote + " Bounded: <=20 input bytes for frames, <=7 for free-form EDF, <=11 for the array family, <=12 for the handshake reader.",
		Technique: "symbolic execution of go/ssa over symbolic input buffers with an allocation monitor + SMT (QF_BV); native replay",
		Design:    "DESIGN.md §4 C16",
	},
	"C13": {
		Text:      "The deterministic choice functions that keep a process pair's traffic on one path are executed symbolically from the real code: SendPID/send pick the pooled link from from.ID (64-bit symbolic) and the pool length (1..8, optionally grown between two sends); serve/read pick the receive queue from the order byte the sender derived from to.ID. The solver decides for every pair of ids whether two consecutive messages share link, order byte and queue and stay in arrival order. Two recorded findings (ids that are multiples of 255; pool growth between sends) are excluded by their exact predicate and reproduced natively on every run.",
		Note:      bmcNote + " The claim is about link/queue selection and queue order; real TCP delays and the one-worker-per-queue lock protocol under concurrency are outside (the latter is covered when a concurrency entry is present in the evidence).",
		Technique: "symbolic execution of go/ssa + SMT (QF_BV, 64-bit urem by constant); native replay",
		Design:    "DESIGN.md §4 C13",
	},
	"C14": {
		Text:      "Two local consumers build every set of <=4 links/monitors on pid/name/alias/event/node targets living on two remote nodes through the real process API (connections are fakes), remote consumers hold links on a local process; then the real RouteNodeDown with the real defaultTargetManager.CleanupNode runs symbolically: exactly one exit/down with ErrNoConnection per relation on the lost node, relations on the other node untouched, relations of the lost node's processes removed, a repeated node-down notifies nobody. (Incarnation checks and frame-level termination are added by the net/proto entries when present in the evidence.)",
		Note:      bmcNote + " The chain read error -> serve exit -> unregisterConnection -> RouteNodeDown is covered from RouteNodeDown on; in-flight request timeouts rest on the timer stub.",
		Technique: "symbolic execution of go/ssa over symbolic relation sets + SMT; native replay",
		Design:    "DESIGN.md §4 C14",
	},
	"C15": {
		Text:      "Access-control decisions are executed symbolically: every history of <=4 Enable/Disable calls with symbolic node lists on the remote-spawn and remote-application-start tables followed by the permission query for every (name, peer) - allowed must be justified by an Enable not revoked for that peer; the effective cookie, size limit and flags of an acceptor from the real startAcceptor; and the flag gates: a decoded remote spawn / application-start request into the real routeMessage under symbolic node flags is handed to the core iff this node's flag for exactly that kind of request allows it and is attributed to the connected peer, and a request the peer's announced flags forbid is refused locally (RemoteSpawn, ApplicationStart*). Env exposure: the real connection.Spawn/SpawnRegister/ApplicationStart with symbolic ExposeEnvRemoteSpawn/ExposeEnvRemoteApplicationStart, the request bytes carried through the peer's real receive path: the requester's environment reaches the peer's core only when the matching option is on. Handshake: the real Start and Accept run against each other over an in-memory connection with real SHA-256 and fresh salts - connected iff the cookies are equal, and then both ends agree on names, incarnations, flags, limits and connection id; a pooled-link request (Join) from a party that does not know the cookie - built with another cookie, altered, or a recorded genuine one replayed byte for byte - must be refused (the replay is accepted: recorded as an open finding).",
		Note:      bmcNote + " The listener is a stub; TLS certificate digests and the registrar are outside.",
		Technique: "symbolic execution of go/ssa over symbolic configuration histories + SMT; native replay",
		Design:    "DESIGN.md §4 C15",
	},
	"C17": {
		Text:      "The real application.start/stop/terminate run symbolically together with the real node.spawn, Kill, SendExit, the real process runner goroutine and unregisterProcess on a hand-built node; members are well-behaved fake behaviours. Every history (which member fails to start, member terminations with each reason class, graceful/forced stop, start again; members busy or idle) within the bound is explored for the three start modes; assertions are the clauses of the property plus 'no call hangs' (the executor reports a goroutine that re-acquires an RWMutex it already holds, and deadlocks). Bounded: <=3 members, <=3 events.",
		Note:      bmcNote + " Goroutines are scheduled cooperatively in this entry (a goroutine runs until it blocks); dependency ordering of ApplicationStart and registrar routes are outside.",
		Technique: "symbolic execution of go/ssa over symbolic lifecycle histories with lock/deadlock modelling + SMT; native replay",
		Design:    "DESIGN.md §4 C17",
	},
	"C18": {
		Text:      "The real event machinery (process.RegisterEvent/SendEvent/LinkEvent/MonitorEvent/..., RouteSendEvent, Route{Link,Unlink,Monitor,Demonitor}Event, RouteTerminateEvent, target manager, the flush-mode MPSC buffer) runs symbolically over every history of <=5 operations by a token holder, a stranger and two consumers, for buffer sizes 0..2 and Notify on/off, followed by unregistration or owner termination; real mailboxes are inspected against the statement. A consumer that both links and monitors the same event is outside the claim (the statement does not say whether it counts once or twice).",
		Note:      bmcNote + " Local subscribers only; publish-vs-subscribe races are the subject of concurrency entries when present in the evidence.",
		Technique: "symbolic execution of go/ssa over symbolic operation histories + SMT; native replay",
		Design:    "DESIGN.md §4 C18",
	},
	"C19": {
		Text:      "The real Pool.ProcessRun and Pool.forward run symbolically on a fake gen.Process whose Forward returns, per attempt, a symbolic outcome (delivered, unknown, terminated, mailbox full; dead workers stay dead): exactly one hand-over of the very same message object, full workers skipped, dead workers replaced on the spot with LinkParent, ring size kept, drop only when all are full. Bounded: pool <=3, <=3 messages. The contract the pool relies on is checked on the real node code as well: process.Forward (and the Route* sends) to a target whose state is symbolic - sleeping, running, waiting for a response, zombie (killed while busy), terminated, unknown - delivers exactly once iff the target is alive and reports ErrProcessTerminated/ErrProcessUnknown otherwise.",
		Note:      bmcNote,
		Technique: "symbolic execution of go/ssa with nondeterministic environment stubs + SMT; native replay",
		Design:    "DESIGN.md §4 C19",
	},
	"C07": {
		Text:      "waitResponse interacts with the rest of the node only through one buffered channel and a timer, so its behaviour is a function of the order in which replies are put into that channel relative to the two calls: the real CallPID (MakeRef, RouteCallPID, waitResponse) is executed symbolically twice in a row while an environment goroutine delivers, at every point where the caller blocks, every sequence of <=4 replies / error replies carrying the first request's reference, the second's, or a foreign one (real RouteSendResponse/RouteSendResponseError); when nothing else can happen the timer fires. Asserted: a call returns only what was produced for that very request, else a timeout; late replies are dropped. A bit-vector query checks that the one-word reference of two 'important' sends differs (recorded finding).",
		Note:      bmcNote + " Kill or termination of the caller while it waits, and replies from remote nodes, are outside (frame level: C12).",
		Technique: "symbolic execution of go/ssa with cooperative goroutines over symbolic reply orders + SMT; QF_BV query for reference uniqueness; native replay",
		Design:    "DESIGN.md §4 C07",
	},
	"C08": {
		Text:      "The real act.Supervisor (ProcessInit, ProcessRun, handleAction, supOFO/supARFO state machines) runs on a fake gen.Process inside the symbolic executor; the history of child exits (which child, which reason, optional death during the stopping phase, symbolic Significant flags) is explored path-wise with solver-decided feasibility for all 18 (type x strategy x KeepOrder) and 12 (type x strategy x auto-shutdown) configurations; assertions are the clauses of the property (restart scope and order, view consistency, significant/auto-shutdown termination). Bounded: <=3 children, <=4 events. Management calls: DisableChild/EnableChild are part of the history alphabet - a disabled child is stopped, stays down through group restarts, is started again only by EnableChild, and management calls are accepted again once a restart has completed (the defect found there is fixed).",
		Note:      bmcNote + " Children are modelled by the fake process: a child that is sent an exit eventually exits with that reason.",
		Technique: "symbolic execution of go/ssa over symbolic event histories + SMT feasibility/assertion queries; native replay",
		Design:    "DESIGN.md §4 C08",
	},
	"C09": {
		Text:      "supCheckRestartIntensity is executed symbolically over k consecutive failures with a symbolic clock (time.Now is a solver variable) and symbolic Intensity/Period, differentially against the windowed-count definition in the property; the same limit is then checked through the real supervisor for one/all/rest-for-one. The solver covers every timing within the bound: k<=6 failures, Intensity<=4, Period over the whole uint16 range (1..3 s with clock steps on both sides of the window; larger periods, incl. 66, 4000 and 65535 s through the supervisor, with every failure inside the window); edge instants within 50 ms of the window boundary are excluded because the statement leaves the boundary open.",
		Note:      bmcNote + " Native replay realises the symbolic clock by sleeping.",
		Technique: "symbolic execution of go/ssa with a symbolic clock + SMT (QF_BV); differential against a reference model; native replay",
		Design:    "DESIGN.md §4 C09",
	},
}
