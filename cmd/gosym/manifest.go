package main

import (
	"bufio"
	"encoding/json"
	"fmt"
	"os"
	"path/filepath"
	"sort"
)

// Meta holds the manifest texts per property.
type Meta struct {
	Text      string // level_claimed.text
	Note      string // level_note
	Technique string
	Design    string
}

// NotApplicable lists properties not claimed, with the reason.
var NotApplicable = map[string]string{}

func cmdManifest(args []string) int {
	vdir := env("VERIF_DIR", "/verif")
	f, err := os.Open(filepath.Join(vdir, "properties.jsonl"))
	if err != nil {
		fmt.Fprintln(os.Stderr, err)
		return 2
	}
	var ids []string
	sc := bufio.NewScanner(f)
	sc.Buffer(make([]byte, 1<<20), 1<<20)
	for sc.Scan() {
		var p struct {
			ID string `json:"id"`
		}
		if json.Unmarshal(sc.Bytes(), &p) == nil && p.ID != "" {
			ids = append(ids, p.ID)
		}
	}
	f.Close()
	have := map[string]bool{}
	var checks []interface{}
	var served []string
	sort.Slice(Checks, func(i, j int) bool { return Checks[i].ID < Checks[j].ID })
	for _, c := range Checks {
		m, ok := Metas[c.ID]
		if !ok {
			continue
		}
		have[c.ID] = true
		served = append(served, c.ID)
		checks = append(checks, map[string]interface{}{
			"property_id":         c.ID,
			"quick_cmd":           "./check " + c.ID + " quick",
			"thorough_cmd":        "./check " + c.ID + " thorough",
			"evidence_file":       "/verif/evidence/" + c.ID + ".json",
			"replay_cmd_template": "./check --replay " + c.ID + " {path}",
			"engine":              "gosym",
			"level_claimed": map[string]string{
				"category":   "model_checking",
				"text":       m.Text,
				"design_ref": m.Design,
			},
			"level_note": m.Note,
			"technique":  m.Technique,
		})
	}
	na := []interface{}{}
	for _, id := range ids {
		if have[id] {
			continue
		}
		r := NotApplicable[id]
		if r == "" {
			r = "check not built yet (work in progress; see DESIGN.md section 7)"
		}
		na = append(na, map[string]string{"property_id": id, "reason": r})
	}
	doc := map[string]interface{}{
		"version":   1,
		"setup_cmd": "./setup.sh",
		"hooks": map[string]interface{}{
			"guard":            "verif",
			"enable":           "harness files and the harness runtime are injected as build-tag-guarded overlay files (go/packages Overlay for the encoder, go test -tags verif -overlay for native replay); for the cron tick entry the native replay additionally builds a copy of node/cron.go, regenerated from /repo's current source on every run, in which time.Now(), time.AfterFunc( and c.timer.Reset( are textually redirected to the harness runtime's scripted clock and timer (harness/node/INSTRUMENT.json); nothing is written to /repo",
			"baseline_off_cmd": "cd /repo && GOFLAGS=-mod=mod go test -vet=off -count=1 -timeout 25m ./...",
			"source_commits":   []string{},
			"add_only":         true,
		},
		"engines": []interface{}{map[string]interface{}{
			"name": "gosym", "path": "/verif/bin/gosym", "serves_properties": served,
			"kind_free_text": "own symbolic executor for Go: go/ssa of /repo's current tree -> path-wise symbolic execution -> SMT-LIB2 (bit-vectors) to z3 / cvc5; bounded; every counterexample is replayed against the native build before it is reported",
		}},
		"checks":         checks,
		"not_applicable": na,
		"notes":          "All checks: `./check <ID> quick|thorough`. Exit 0 = held within the stated bounds; 1 + VIOLATION line = replay-confirmed counterexample; 2 = inconclusive (never an alarm). Known findings: /verif/known_findings.json.",
	}
	b, _ := json.MarshalIndent(doc, "", " ")
	if err := os.WriteFile(filepath.Join(vdir, "MANIFEST.json"), append(b, '\n'), 0o644); err != nil {
		fmt.Fprintln(os.Stderr, err)
		return 2
	}
	fmt.Printf("MANIFEST.json: %d checks, %d not applicable\n", len(checks), len(na))
	return 0
}
