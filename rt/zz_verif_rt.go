//go:build verif

package lib

// Harness runtime for gosym. In the symbolic executor these functions are intercepted by name;
// the bodies below are used only when a counterexample is replayed against the native build:
// every symbolic input is then read from the replay file (name#occurrence -> value).

import (
	"encoding/json"
	"fmt"
	"os"
	"runtime"
	"sync"
	"time"
)

type verifReplayFile struct {
	Tag    string            `json:"tag"`
	Inputs map[string]uint64 `json:"inputs"`
	Params map[string]int64  `json:"params"`
	Shard  int               `json:"shard"`
}

var (
	verifReplay  verifReplayFile
	verifCount   = map[string]int{}
	VerifFailed  []string
	VerifReached = map[string]int{}
)

// VerifFailure is the panic value raised by a failed VerifAssert during native replay.
type VerifFailure struct{ Tag string }

// VerifAssumeFailed is the panic value raised when a replayed input violates an assumption.
type VerifAssumeFailed struct{}

func VerifLoadReplay(path string) error {
	b, err := os.ReadFile(path)
	if err != nil {
		return err
	}
	verifReplay = verifReplayFile{}
	verifCount = map[string]int{}
	VerifFailed = nil
	verifLastNow = time.Time{}
	verifTimerFn = nil
	verifTimerArmed = false
	verifClockSteps = nil
	return json.Unmarshal(b, &verifReplay)
}

func verifNext(name string) uint64 {
	k := verifCount[name]
	verifCount[name] = k + 1
	return verifReplay.Inputs[fmt.Sprintf("%s#%d", name, k)]
}

func VerifUint64(name string) uint64 { return verifNext(name) }
func VerifInt64(name string) int64   { return int64(verifNext(name)) }
func VerifInt(name string) int       { return int(int64(verifNext(name))) }
func VerifUint32(name string) uint32 { return uint32(verifNext(name)) }
func VerifInt32(name string) int32   { return int32(verifNext(name)) }
func VerifUint16(name string) uint16 { return uint16(verifNext(name)) }
func VerifInt16(name string) int16   { return int16(verifNext(name)) }
func VerifByte(name string) byte     { return byte(verifNext(name)) }
func VerifBool(name string) bool     { return verifNext(name) != 0 }

// VerifChoose returns a symbolic value in [0,n).
func VerifChoose(name string, n int) int { return int(verifNext(name)) }

// VerifPick returns a value in [0,n); the executor explores one path per value.
func VerifPick(name string, n int) int { return int(verifNext(name)) }

// VerifShard returns the shard number of this run in [0,n) (concrete in the executor).
func VerifShard(name string, n int) int {
	if v, ok := verifReplay.Params["shard:"+name]; ok {
		return int(v) % n
	}
	return verifReplay.Shard % n
}

// VerifParam returns a bound configured per check (concrete in the executor).
func VerifParam(name string, def int) int {
	if v, ok := verifReplay.Params[name]; ok {
		return int(v)
	}
	return def
}

func VerifBytes(name string, n int) []byte {
	b := make([]byte, n)
	for i := range b {
		b[i] = byte(verifNext(name))
	}
	return b
}

func VerifString(name string, n int) string { return string(VerifBytes(name, n)) }

func VerifAssume(c bool) {
	if !c {
		panic(VerifAssumeFailed{})
	}
}

func VerifAssert(c bool, tag string) {
	if !c {
		VerifFailed = append(VerifFailed, tag)
		fmt.Printf("VERIF-ASSERT-FAILED tag=%q\n", tag)
	}
}

func VerifFail(tag string) { VerifAssert(false, tag) }

func VerifReach(tag string) { VerifReached[tag]++ }

// VerifYield lets other goroutines run (executor: until they block; native: scheduler hint).
func VerifYield() {
	// native: wait until the other goroutines have gone quiet (goroutine count stable), at least
	// 30 ms and at most 3 s
	start := time.Now()
	last, stable := runtime.NumGoroutine(), 0
	for time.Since(start) < 3*time.Second {
		time.Sleep(5 * time.Millisecond)
		n := runtime.NumGoroutine()
		if n == last {
			stable++
		} else {
			last, stable = n, 0
		}
		if stable >= 8 && time.Since(start) >= 30*time.Millisecond {
			return
		}
	}
}

// VerifSymbolic reports whether the code runs inside the symbolic executor.
func VerifSymbolic() bool { return false }

// VerifStepBound: executor-only progress bound (native replay relies on its 60 s hang timeout).
func VerifStepBound(n int) {}

var verifAllocBase uint64

// VerifAllocReset/VerifAllocMax: allocation monitor. Executor: largest single allocation in bytes
// since the reset. Native replay: bytes allocated since the reset beyond 1 MiB of slack.
func VerifAllocReset() {
	var m runtime.MemStats
	runtime.ReadMemStats(&m)
	verifAllocBase = m.TotalAlloc
}

func VerifAllocMax() int {
	var m runtime.MemStats
	runtime.ReadMemStats(&m)
	d := m.TotalAlloc - verifAllocBase
	if d < 1<<20 {
		return 0
	}
	return int(d - 1<<20)
}
func VerifStop()          {}

// ---- scripted clock and timer for instrumented native replays ----
// The native replay of package node builds node/cron.go with time.Now(), time.AfterFunc( and
// c.timer.Reset( textually replaced by the three functions below (see harness/node/INSTRUMENT.json;
// the copy is regenerated from /repo's current source on every run). The executor runs the
// unmodified file on its own clock and timer model.

var (
	verifLastNow    time.Time
	verifTimerFn    func()
	verifTimerArmed bool
)

var verifClockSteps []int64
var verifClockMs int64

// VerifClockSteps: every later clock read first advances the clock by one of the given amounts (ms);
// native: the choice per read comes from the replayed inputs clockstep#k (instrumented code only).
func VerifClockSteps(ms ...int64) {
	verifClockSteps = ms
	verifClockMs = 1_700_000_000_000
}

// VerifNow returns the next instant of the replayed clock script (inputs now.sec#k / now.ms#k, in call
// order), the last one again when the script is used up, the real time when there is no script.
func VerifNow() time.Time {
	if len(verifClockSteps) > 0 {
		c := int(verifNext("clockstep"))
		if c < len(verifClockSteps) {
			verifClockMs += verifClockSteps[c]
		}
		return time.UnixMilli(verifClockMs)
	}
	k := verifCount["now.sec"]
	if _, ok := verifReplay.Inputs[fmt.Sprintf("now.sec#%d", k)]; !ok {
		if verifLastNow.IsZero() {
			return time.Now()
		}
		return verifLastNow
	}
	sec := verifNext("now.sec")
	ms := verifNext("now.ms")
	verifLastNow = time.Unix(int64(sec), int64(ms)*1000000)
	return verifLastNow
}

// VerifAfterFunc records the callback instead of starting a wall-clock timer; VerifFireTimers runs it.
func VerifAfterFunc(d time.Duration, f func()) *time.Timer {
	verifTimerFn = f
	verifTimerArmed = true
	t := time.NewTimer(1000 * time.Hour)
	t.Stop()
	return t
}

// VerifTimerReset stands for (*time.Timer).Reset on the timer returned by VerifAfterFunc.
func VerifTimerReset(t *time.Timer, d time.Duration) bool {
	was := verifTimerArmed
	verifTimerArmed = true
	return was
}

// VerifFireTimers fires the pending timers (executor: every active virtual timer, earliest first;
// instrumented native replay: the recorded callback if it is armed). Returns how many fired.
func VerifFireTimers() int {
	if verifTimerArmed && verifTimerFn != nil {
		verifTimerArmed = false
		verifTimerFn()
		return 1
	}
	return 0
}

// VerifTimersArmed is the number of timers that are currently armed.
func VerifTimersArmed() int {
	if verifTimerArmed {
		return 1
	}
	return 0
}

// VerifIte is a branch-free conditional (an ite term in the executor).
func VerifIte(c bool, a, b int) int {
	if c {
		return a
	}
	return b
}

// VerifClockAdvance moves the clock seen by time.Now forward by ms milliseconds
// (executor: the symbolic clock; native replay: sleeps).
func VerifClockAdvance(ms int64) { time.Sleep(time.Duration(ms) * time.Millisecond) }

// VerifProvide hands the executor an environment object (e.g. the net.Listener that the stubbed
// ListenConfig.Listen returns). Native builds use the real environment.
func VerifProvide(key string, v any) {}

// ---- concurrency mode (native bodies: plain goroutines and atomics) ----

var verifWG sync.WaitGroup
var verifMu sync.Mutex

// VerifGuarded names an object whose content is protected by its own lock (a struct embedding a
// sync.Mutex/RWMutex) or is a sync.Map: in concurrency mode its content is shared between the threads
// through one abstract state cell. No effect natively.
func VerifGuarded(v any) {}

// VerifShared marks a plain memory cell as shared between threads in concurrency mode (its ordinary
// loads and stores become events). No effect natively.
func VerifShared(p any) {}

// VerifGo starts a harness thread.
func VerifGo(name string, fn func()) {
	verifWG.Add(1)
	go func() {
		defer verifWG.Done()
		// the executor runs a harness goroutine when the main thread blocks: give it time to get there
		time.Sleep(50 * time.Millisecond)
		fn()
	}()
}

// VerifAtQuiescence runs fn once every thread has finished.
func VerifAtQuiescence(fn func()) {
	verifWG.Wait()
	VerifYield()
	fn()
}

func VerifSharedLoad(p *int) int { verifMu.Lock(); defer verifMu.Unlock(); return *p }
func VerifSharedStore(p *int, v int) { verifMu.Lock(); *p = v; verifMu.Unlock() }
func VerifSharedAdd(p *int, d int) int { verifMu.Lock(); defer verifMu.Unlock(); *p += d; return *p }

// VerifOverride replaces a function by a harness stub in the executor (no effect natively).
func VerifOverride(name string, fn any) {}

// VerifConcurrentMode reports whether the harness runs under the concurrency-mode analysis.
func VerifConcurrentMode() bool { return false }

// VerifPathCount counts per thread path in the executor (always 0 natively); VerifCut ends a thread
// path that exceeds a harness bound (the executor then checks that no interleaving gets there).
func VerifPathCount(name string) int { return 0 }
func VerifCut()                      {}
