#!/bin/sh
# usage: runsh.sh pkg entry params shards...
pkg=$1; entry=$2; params=$3; shift 3
for sh in "$@"; do echo "== shard $sh"; /verif/bin/gosym run -pkg $pkg -entry $entry -shard $sh -params $params 2>&1 | python3 -c "
import sys,json
t=sys.stdin.read()
try:
  j=json.loads(t[t.index('{'):t.rindex('}')+1]); print(j['Paths'], j['PathKinds'], j['Reached'], [x[:300] for x in (j['Inconcl'] or [])], round(j['Seconds'],1));
  for v in (j['Violations'] or [])[:3]: print('  VIOL', v['tag'], v['inputs'], (v.get('where') or '')[:300])
except Exception as e: print('ERR', e, t[-2000:])
"; done
