#!/bin/bash
# runs every seeded change against its property's quick check (apply to /repo, check, undo)
cd /verif
for d in seeded/*/; do
  sid=$(basename $d); prop=$(python3 -c "import json;print(json.load(open('$d/meta.json'))['property'])")
  t0=$(date +%s)
  out=$(./seedrun.sh $sid $prop 2>&1)
  t1=$(date +%s)
  echo "$sid $prop wall=$((t1-t0))s :: $(echo "$out" | grep -c '^VIOLATION') violations; $(echo "$out" | grep 'check exit' | tail -n 1)"
done
