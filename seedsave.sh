#!/bin/bash
# usage: seedsave.sh <seed-id> <worktree> <pkg> <TestName>
# Confirms a seeded change in its worktree (builds, demo fails with / passes without) and stores it
# under /verif/seeded/<seed-id>. The worktree is left with the change applied.
export GOFLAGS=-mod=mod GOPROXY=off GOSUMDB=off GOTOOLCHAIN=local
sid=$1; wt=$2; pkg=$3; tname=$4
d=/verif/seeded/$sid; mkdir -p $d
cp $wt/seeded_patch.diff $d/patch.diff
cp $wt/$pkg/zz_seeded_demo_test.go $d/demo_test.go
cd $wt
echo "== $sid with change:"; (timeout 200 go build ./... && timeout 200 go test -vet=off -count=1 -run "$tname" ./$pkg/ 2>&1 | tail -3)
git apply -R seeded_patch.diff
echo "== $sid without change:"; timeout 200 go test -vet=off -count=1 -run "$tname" ./$pkg/ 2>&1 | tail -2
git apply seeded_patch.diff
