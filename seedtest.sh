#!/bin/bash
# usage: seedtest.sh <seed-id> <property> <worktree> <pkg> <TestName>
# Confirms a seeded change (fails with / passes without, builds), stores it under /verif/seeded/<seed-id>,
# then applies it to /repo, runs the property's quick check and undoes it.
export GOFLAGS=-mod=mod GOPROXY=off GOSUMDB=off GOTOOLCHAIN=local
sid=$1; prop=$2; wt=$3; pkg=$4; tname=$5
d=/verif/seeded/$sid; mkdir -p $d
cp $wt/seeded_patch.diff $d/patch.diff
cp $wt/$pkg/zz_seeded_demo_test.go $d/demo_test.go
cd $wt
echo "== with change:"; (timeout 200 go build ./... && timeout 200 go test -vet=off -count=1 -run "$tname" ./$pkg/ 2>&1 | tail -4); with=$?
git apply -R seeded_patch.diff
echo "== without change:"; timeout 200 go test -vet=off -count=1 -run "$tname" ./$pkg/ 2>&1 | tail -2
git apply seeded_patch.diff
cd /repo && git apply $d/patch.diff && echo "== applied to /repo; running check $prop quick" && (cd /verif && timeout 1500 ./bin/gosym.seed check $prop quick 2>&1 | cut -c1-400 | tail -6; echo "check exit=$?") ; git -C /repo checkout -- . ; git -C /repo status --short | head -3
