#!/bin/sh
# Runs the repository's pinned test suite (guard off) and compares with BASELINE.json stable_pass.
export GOFLAGS=-mod=mod GOPROXY=off GOSUMDB=off
out=${1:-/tmp/baseline_run.json}
cd ${REPO:-/repo} && go test -json -vet=off -count=1 -timeout 25m ./... > $out 2>/dev/null
python3 - "$out" <<'PY'
import json,sys
res={}
for l in open(sys.argv[1]):
    try: e=json.loads(l)
    except: continue
    if e.get('Test') and e.get('Action') in ('pass','fail','skip'):
        res[e['Package']+'::'+e['Test']]=e['Action']
base=json.load(open('/root/.vp/BASELINE.json'))
bad=[t for t in base['stable_pass'] if res.get(t)!='pass']
print('stable_pass total',len(base['stable_pass']),'not passing now:',len(bad))
for t in bad: print('  ',t,res.get(t))
PY
