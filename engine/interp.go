package engine

import (
	"fmt"
	"go/constant"
	"go/token"
	"go/types"
	"math"
	"os"
	"runtime/debug"
	"strings"

	"golang.org/x/tools/go/ssa"
)

type deferred struct {
	fn    Value
	args  []Value
	instr *ssa.Defer
	tail  *deferred
}

type frame struct {
	x                *Exec
	g                *G
	caller           *frame
	fn               *ssa.Function
	block, prevBlock *ssa.BasicBlock
	env              map[ssa.Value]Value
	locals           []Value
	defers           *deferred
	result           Value
	panicking        bool
	panic            interface{}
	callpos          token.Pos
	curPos           token.Pos
}

// targetPanic is a Go-level panic of the interpreted program.
type targetPanic struct {
	v     Value // the panic value (an Iface)
	where string
}

// pathEnd is the sentinel that unwinds the native stack when a path stops.
type pathEnd struct {
	kind string // "abort" | "infeasible" | "hang" | "unsupported" | "unwind" | "done" | "violation-stop"
	msg  string
}

func (x *Exec) unsupported(msg string) {
	panic(pathEnd{kind: "unsupported", msg: msg + x.whereAmI()})
}

func (x *Exec) whereAmI() string {
	if x.curFrame == nil {
		return ""
	}
	var sb strings.Builder
	n := 0
	for fr := x.curFrame; fr != nil && n < 6; fr = fr.caller {
		sb.WriteString("\n    in " + fr.fn.String())
		if fr.curPos.IsValid() {
			sb.WriteString(" at " + x.prog.Fset.Position(fr.curPos).String())
		}
		n++
	}
	return sb.String()
}

func (x *Exec) runtimeErr(msg string) Value {
	return Iface{T: x.runtimeErrorT, V: x.mkStr(msg)}
}

func (x *Exec) targetPanicStr(msg string) {
	panic(targetPanic{v: x.runtimeErr(msg), where: x.whereAmI()})
}

func (fr *frame) get(key ssa.Value) Value {
	switch key := key.(type) {
	case nil:
		return nil
	case *ssa.Function, *ssa.Builtin:
		return key
	case *ssa.Const:
		return fr.x.constValue(key)
	case *ssa.Global:
		return fr.x.globalAddr(key)
	}
	if r, ok := fr.env[key]; ok {
		return r
	}
	panic(fmt.Sprintf("get: no value for %T: %v in %s", key, key.Name(), fr.fn))
}

func (x *Exec) constValue(c *ssa.Const) Value {
	t := c.Type()
	if c.Value == nil {
		return x.zero(t)
	}
	if tp, ok := t.(*types.TypeParam); ok {
		_ = tp
		x.unsupported("const of type param")
	}
	switch u := t.Underlying().(type) {
	case *types.Basic:
		switch {
		case u.Info()&types.IsBoolean != 0:
			return x.ts.Bool(constant.BoolVal(c.Value))
		case u.Info()&types.IsString != 0:
			if c.Value.Kind() == constant.String {
				return x.mkStr(constant.StringVal(c.Value))
			}
			return x.mkStr(string(rune(c.Int64())))
		case u.Info()&types.IsInteger != 0:
			w := x.widthOf(t)
			if u.Info()&types.IsUnsigned != 0 {
				return x.ts.BV(c.Uint64(), w)
			}
			return x.ts.BV(uint64(c.Int64()), w)
		case u.Info()&types.IsFloat != 0:
			f := c.Float64()
			if x.widthOf(t) == 32 {
				return x.ts.BV(uint64(math.Float32bits(float32(f))), 32)
			}
			return x.ts.BV(math.Float64bits(f), 64)
		}
	}
	x.unsupported("const " + c.String())
	return nil
}

func (x *Exec) globalAddr(g *ssa.Global) Ptr {
	if p, ok := x.globals[g]; ok {
		return p
	}
	v := x.zero(mustDeref(g.Type()))
	p := &v
	x.globals[g] = p
	return p
}

func mustDeref(t types.Type) types.Type {
	if p, ok := t.Underlying().(*types.Pointer); ok {
		return p.Elem()
	}
	panic("mustDeref: " + t.String())
}

// ---------------------------------------------------------------------------

func (fr *frame) runDefer(d *deferred) {
	var ok bool
	defer func() {
		if !ok {
			r := recover()
			if pe, isEnd := r.(pathEnd); isEnd {
				panic(pe)
			}
			if _, isT := r.(targetPanic); !isT {
				panic(r) // engine bug: propagate
			}
			fr.panicking = true
			fr.panic = r
		}
	}()
	fr.x.call(fr, d.instr.Pos(), d.fn, d.args)
	ok = true
}

func (fr *frame) runDefers() {
	for d := fr.defers; d != nil; d = d.tail {
		fr.runDefer(d)
	}
	fr.defers = nil
	if fr.panicking {
		panic(fr.panic)
	}
}

func (x *Exec) call(caller *frame, pos token.Pos, fn Value, args []Value) Value {
	switch fn := fn.(type) {
	case *ssa.Function:
		if fn == nil {
			x.targetPanicStr("call of nil function")
		}
		return x.callSSA(caller, pos, fn, args, nil)
	case *Closure:
		if fn == nil {
			x.targetPanicStr("invalid memory address or nil pointer dereference (nil func)")
		}
		return x.callSSA(caller, pos, fn.Fn, args, fn.Env)
	case *ssa.Builtin:
		return x.callBuiltin(caller, pos, fn, args)
	case nil:
		x.targetPanicStr("invalid memory address or nil pointer dereference (nil func)")
	}
	panic(fmt.Sprintf("cannot call %T", fn))
}

func funcKey(fn *ssa.Function) string {
	if o := fn.Origin(); o != nil {
		return o.String()
	}
	return fn.String()
}

func (x *Exec) callSSA(caller *frame, pos token.Pos, fn *ssa.Function, args []Value, env []Value) Value {
	var g *G
	if caller != nil {
		g = caller.g
	} else {
		g = x.cur
	}
	fr := &frame{x: x, g: g, caller: caller, fn: fn, callpos: pos}
	if x.lenient > 0 && fn.Pkg != nil && fn.Name() == "init" && fn == fn.Pkg.Func("init") {
		if x.initDone[fn.Pkg] || !initAllowed(fn.Pkg.Pkg.Path()) {
			return nil
		}
		x.initDone[fn.Pkg] = true
	}
	if x.lenient > 0 && fn.Pkg != nil && InitDeny[fn.Pkg.Pkg.Path()] {
		x.lenientSkips[fn.String()]++
		return x.zero(fn.Signature.Results())
	}
	if x.cm != nil && len(x.cm.overrides) > 0 {
		if ov, ok := x.cm.overrides[funcKey(fn)]; ok && !x.cm.inOverride {
			x.cm.inOverride = true
			defer func() { x.cm.inOverride = false }()
			n := 0
			if c, isC := ov.(*Closure); isC {
				n = len(c.Fn.Params)
			} else if f, isF := ov.(*ssa.Function); isF {
				n = len(f.Params)
			}
			if n > len(args) {
				n = len(args)
			}
			r := x.call(caller, pos, ov, args[:n])
			if r == nil {
				return x.zero(fn.Signature.Results())
			}
			return r
		}
	}
	if fn.Parent() == nil {
		key := funcKey(fn)
		if ext := intrinsics[key]; ext != nil {
			x.noteFunc(fn, true)
			saved := x.curFrame
			x.curFrame = fr
			r := ext(fr, args)
			x.curFrame = saved
			if _, ft := r.(fallthroughVal); !ft {
				return r
			}
		}
		if fn.Blocks == nil {
			if x.lenient > 0 {
				x.lenientSkips[key]++
				return x.zero(fn.Signature.Results())
			}
			x.unsupported("no code for function: " + key)
		}
	}
	if fn.TypeParams().Len() > 0 && len(fn.TypeArgs()) == 0 {
		x.unsupported("uninstantiated generic " + fn.String())
	}
	x.noteFunc(fn, false)
	x.depth++
	if x.depth > 400 {
		x.unsupported("call depth > 400")
	}
	saved := x.curFrame
	x.curFrame = fr
	defer func() { x.curFrame = saved; x.depth-- }()

	fr.env = make(map[ssa.Value]Value, 16)
	fr.block = fn.Blocks[0]
	fr.locals = make([]Value, len(fn.Locals))
	for i, l := range fn.Locals {
		fr.locals[i] = x.zero(mustDeref(l.Type()))
		fr.env[l] = &fr.locals[i]
	}
	for i, p := range fn.Params {
		fr.env[p] = args[i]
	}
	for i, fv := range fn.FreeVars {
		fr.env[fv] = env[i]
	}
	for fr.block != nil {
		fr.runFrame()
	}
	return fr.result
}

func (fr *frame) runFrame() {
	defer func() {
		if fr.block == nil {
			return
		}
		r := recover()
		if r == nil {
			return
		}
		if _, isT := r.(targetPanic); !isT {
			if _, isEnd := r.(pathEnd); !isEnd {
				fr.x.curFrame = fr
				st := ""
				if os.Getenv("GOSYM_DEBUG") != "" {
					st = "\n" + string(debug.Stack())
				}
				r = pathEnd{kind: "internal", msg: fmt.Sprintf("%v%s%s", r, fr.x.whereAmI(), st)}
			}
			panic(r) // pathEnd or an engine bug: do not run target defers
		}
		fr.x.curFrame = fr
		fr.panicking = true
		fr.panic = r
		fr.runDefers()
		fr.block = fr.fn.Recover
		if fr.block == nil {
			// recovered in a function without named results: zero results
			fr.result = fr.x.zero(fr.fn.Signature.Results())
			if tp, ok := fr.result.(Tuple); ok && len(tp) == 0 {
				fr.result = nil
			}
		}
	}()
	x := fr.x
	for {
		// phis
		instrs := fr.block.Instrs
		n := 0
		for n < len(instrs) {
			if _, ok := instrs[n].(*ssa.Phi); !ok {
				break
			}
			n++
		}
		if n > 0 {
			pi := -1
			for i, p := range fr.block.Preds {
				if p == fr.prevBlock {
					pi = i
					break
				}
			}
			tmp := make([]Value, n)
			for i := 0; i < n; i++ {
				tmp[i] = fr.get(instrs[i].(*ssa.Phi).Edges[pi])
			}
			for i := 0; i < n; i++ {
				fr.env[instrs[i].(*ssa.Phi)] = tmp[i]
			}
		}
		for _, instr := range instrs[n:] {
			x.steps++
			if x.hangAt > 0 && x.steps > x.hangAt {
				panic(pathEnd{kind: "hang", msg: fmt.Sprintf("no progress: declared step bound exceeded (%d steps)", x.steps) + x.whereAmI()})
			}
			if x.steps > x.cfg.MaxSteps {
				panic(pathEnd{kind: "unwind", msg: fmt.Sprintf("step budget %d exhausted", x.cfg.MaxSteps) + x.whereAmI()})
			}
			fr.curPos = instr.Pos()
			k := fr.visit(instr)
			if traceFn != "" && strings.Contains(fr.fn.String(), traceFn) {
				if v, ok := instr.(ssa.Value); ok {
					fmt.Fprintf(os.Stderr, "TRACE %s: %s = %s  => %s\n", fr.fn.Name(), v.Name(), instr, x.describe(fr.env[v], 3))
				} else {
					fmt.Fprintf(os.Stderr, "TRACE %s: %s\n", fr.fn.Name(), instr)
				}
			}
			if k == kReturn {
				return
			}
		}
	}
}

// fallthroughVal is returned by an intrinsic that declines: the real body is interpreted instead.
type fallthroughVal struct{}

var traceFn = os.Getenv("GOSYM_TRACEFN")

type continuation int

const (
	kNext continuation = iota
	kReturn
	kJump
)

func (fr *frame) visit(instr ssa.Instruction) continuation {
	x := fr.x
	switch instr := instr.(type) {
	case *ssa.DebugRef:
	case *ssa.UnOp:
		fr.env[instr] = x.unop(fr, instr, fr.get(instr.X))
	case *ssa.BinOp:
		fr.env[instr] = x.binop(instr.Op, instr.X.Type(), fr.get(instr.X), fr.get(instr.Y))
	case *ssa.Call:
		fn, args := fr.prepareCall(&instr.Call)
		r := x.call(fr, instr.Pos(), fn, args)
		x.curFrame = fr
		fr.env[instr] = r
	case *ssa.ChangeInterface:
		fr.env[instr] = fr.get(instr.X)
	case *ssa.ChangeType:
		fr.env[instr] = fr.get(instr.X)
	case *ssa.Convert:
		fr.env[instr] = x.conv(instr.Type(), instr.X.Type(), fr.get(instr.X))
	case *ssa.SliceToArrayPointer:
		s := fr.get(instr.X).(Slice)
		n := int(mustDeref(instr.Type()).Underlying().(*types.Array).Len())
		if len(s.S) < n {
			x.targetPanicStr("runtime error: cannot convert slice to array pointer: length too short")
		}
		if s.Nil && n == 0 {
			fr.env[instr] = Ptr(nil)
		} else {
			var v Value = Array(s.S[:n:n])
			fr.env[instr] = &v
		}
	case *ssa.MakeInterface:
		fr.env[instr] = Iface{T: instr.X.Type(), V: copyVal(fr.get(instr.X))}
	case *ssa.Extract:
		fr.env[instr] = fr.get(instr.Tuple).(Tuple)[instr.Index]
	case *ssa.Slice:
		var lo, hi, mx Value
		if instr.Low != nil {
			lo = x.idx64(fr.get(instr.Low), instr.Low.Type())
		}
		if instr.High != nil {
			hi = x.idx64(fr.get(instr.High), instr.High.Type())
		}
		if instr.Max != nil {
			mx = x.idx64(fr.get(instr.Max), instr.Max.Type())
		}
		fr.env[instr] = x.sliceOp(instr, fr.get(instr.X), lo, hi, mx)
	case *ssa.Return:
		switch len(instr.Results) {
		case 0:
			fr.result = nil
		case 1:
			fr.result = copyVal(fr.get(instr.Results[0]))
		default:
			res := make(Tuple, len(instr.Results))
			for i, r := range instr.Results {
				res[i] = copyVal(fr.get(r))
			}
			fr.result = res
		}
		fr.block = nil
		return kReturn
	case *ssa.RunDefers:
		fr.runDefers()
		x.curFrame = fr
	case *ssa.Panic:
		panic(targetPanic{v: fr.get(instr.X), where: x.whereAmI()})
	case *ssa.Send:
		x.chanSend(fr.get(instr.Chan).(*Chan), copyVal(fr.get(instr.X)))
	case *ssa.Store:
		x.storeTo(fr.get(instr.Addr), fr.get(instr.Val))
	case *ssa.If:
		c := fr.get(instr.Cond).(*Term)
		succ := 1
		if x.Branch(c) {
			succ = 0
		}
		fr.prevBlock, fr.block = fr.block, fr.block.Succs[succ]
		return kJump
	case *ssa.Jump:
		fr.prevBlock, fr.block = fr.block, fr.block.Succs[0]
		return kJump
	case *ssa.Defer:
		fn, args := fr.prepareCall(&instr.Call)
		fr.defers = &deferred{fn: fn, args: args, instr: instr, tail: fr.defers}
	case *ssa.Go:
		fn, args := fr.prepareCall(&instr.Call)
		if x.cm != nil {
			x.cm.goStmt(fn, args, x.prog.Fset.Position(instr.Pos()).String())
			break
		}
		x.spawn(fn, args, x.prog.Fset.Position(instr.Pos()).String())
	case *ssa.MakeChan:
		n := x.concreteInt(fr.get(instr.Size).(*Term), "chan size")
		x.chanSeq++
		fr.env[instr] = &Chan{cap: int(n), et: instr.Type().Underlying().(*types.Chan).Elem(), id: x.chanSeq}
	case *ssa.Alloc:
		var addr Ptr
		if instr.Heap {
			addr = new(Value)
			fr.env[instr] = addr
		} else {
			addr = fr.env[instr].(Ptr)
		}
		*addr = x.zero(mustDeref(instr.Type()))
		if x.cm != nil && instr.Heap {
			x.cm.noteAllocObj(addr)
		}
	case *ssa.MakeSlice:
		ln := x.concreteInt(x.idx64(fr.get(instr.Len), instr.Len.Type()), "make len")
		cp := x.concreteInt(x.idx64(fr.get(instr.Cap), instr.Cap.Type()), "make cap")
		if ln < 0 || cp < ln {
			x.targetPanicStr("runtime error: makeslice: len out of range")
		}
		tElt := instr.Type().Underlying().(*types.Slice).Elem()
		x.noteAlloc(cp * elemSize(tElt))
		if cp > 1<<22 {
			x.targetPanicStr("runtime: out of memory (modelled: make of a slice with more than 2^22 elements)")
		}
		fr.env[instr] = Slice{S: x.makeBacking(tElt, int(cp))[:ln]}
	case *ssa.MakeMap:
		x.mapSeq++
		mt := instr.Type().Underlying().(*types.Map)
		fr.env[instr] = &Map{kt: mt.Key(), vt: mt.Elem(), id: x.mapSeq}
	case *ssa.Range:
		fr.env[instr] = x.rangeIter(fr.get(instr.X), instr.X.Type())
	case *ssa.Next:
		fr.env[instr] = fr.get(instr.Iter).(iter).next(x)
	case *ssa.FieldAddr:
		p := fr.get(instr.X).(Ptr)
		if p == nil {
			x.targetPanicStr("runtime error: invalid memory address or nil pointer dereference")
		}
		fp := &(*p).(Struct)[instr.Field]
		if x.cm != nil {
			x.cm.noteField(p, fp, instr.Field)
		}
		fr.env[instr] = fp
	case *ssa.Field:
		fr.env[instr] = fr.get(instr.X).(Struct)[instr.Field]
	case *ssa.IndexAddr:
		fr.env[instr] = x.indexAddr(fr.get(instr.X), x.idx64(fr.get(instr.Index), instr.Index.Type()))
	case *ssa.Index:
		fr.env[instr] = x.index(fr.get(instr.X), x.idx64(fr.get(instr.Index), instr.Index.Type()))
	case *ssa.Lookup:
		fr.env[instr] = x.lookup(instr, fr.get(instr.X), fr.get(instr.Index))
	case *ssa.MapUpdate:
		m := fr.get(instr.Map).(*Map)
		if m == nil {
			x.targetPanicStr("assignment to entry in nil map")
		}
		x.mapSet(m, copyVal(fr.get(instr.Key)), copyVal(fr.get(instr.Value)))
	case *ssa.TypeAssert:
		fr.env[instr] = x.typeAssert(instr, fr.get(instr.X).(Iface))
	case *ssa.MakeClosure:
		var bindings []Value
		for _, b := range instr.Bindings {
			bindings = append(bindings, fr.get(b))
		}
		fr.env[instr] = &Closure{instr.Fn.(*ssa.Function), bindings}
	case *ssa.Select:
		fr.env[instr] = x.selectOp(fr, instr)
	default:
		x.unsupported(fmt.Sprintf("instruction %T", instr))
	}
	return kNext
}

func (fr *frame) prepareCall(call *ssa.CallCommon) (fn Value, args []Value) {
	x := fr.x
	v := fr.get(call.Value)
	if call.Method == nil {
		fn = v
	} else {
		recv := v.(Iface)
		if recv.T == nil {
			x.targetPanicStr("runtime error: invalid memory address or nil pointer dereference (method " + call.Method.Name() + " on nil interface)")
		}
		f := x.lookupMethod(recv.T, call.Method)
		if f == nil {
			x.unsupported(fmt.Sprintf("method set for dynamic type %v does not contain %s", recv.T, call.Method))
		}
		fn = f
		args = append(args, recv.V)
	}
	for _, a := range call.Args {
		args = append(args, copyVal(fr.get(a)))
	}
	return
}

func (x *Exec) lookupMethod(t types.Type, meth *types.Func) *ssa.Function {
	return x.prog.LookupMethod(t, meth.Pkg(), meth.Name())
}

// idx64 widens an index/length operand to 64 bits according to the signedness of its type.
func (x *Exec) idx64(v Value, t types.Type) *Term {
	tm := v.(*Term)
	if tm.W == 64 {
		return tm
	}
	if isSigned(t) {
		return x.ts.SExt(tm, 64)
	}
	return x.ts.ZExt(tm, 64)
}

// concreteInt forces a term to a concrete value, forking over its feasible values if symbolic.
func (x *Exec) concreteInt(t *Term, what string) int64 {
	if t.IsConst() {
		return t.Int()
	}
	return x.Concretize(t, what)
}

func (x *Exec) makeBacking(elt types.Type, n int) []Value {
	s := make([]Value, n)
	if n == 0 {
		return s
	}
	z := x.zero(elt)
	if _, scalar := z.(*Term); scalar {
		for i := range s {
			s[i] = z
		}
		return s
	}
	s[0] = z
	for i := 1; i < n; i++ {
		s[i] = x.zero(elt)
	}
	return s
}

// SymPtr is the address of backing[idx] for a symbolic idx already known to be in range.
type SymPtr struct {
	S   []Value
	Idx *Term
}

func (x *Exec) boundsCheck(idx *Term, n int, what string) {
	if idx.IsConst() {
		if idx.Int() < 0 || idx.Int() >= int64(n) {
			x.targetPanicStr(fmt.Sprintf("runtime error: index out of range [%d] with length %d", idx.Int(), n))
		}
		return
	}
	in := x.ts.Cmp(OpULt, idx, x.ts.BV(uint64(n), idx.W))
	if !x.Branch(in) {
		x.targetPanicStr(fmt.Sprintf("runtime error: index out of range [symbolic] with length %d", n))
	}
}

func isScalarSlots(s []Value) bool {
	if len(s) == 0 {
		return true
	}
	_, ok := s[0].(*Term)
	return ok
}

func (x *Exec) indexAddr(base Value, idx *Term) Value {
	var s []Value
	switch b := base.(type) {
	case Slice:
		s = b.S
	case Ptr:
		if b == nil {
			x.targetPanicStr("runtime error: invalid memory address or nil pointer dereference")
		}
		s = (*b).(Array)
	default:
		x.unsupported(fmt.Sprintf("IndexAddr on %T", base))
	}
	x.boundsCheck(idx, len(s), "index")
	if idx.IsConst() {
		return &s[idx.Int()]
	}
	if isScalarSlots(s) && len(s) <= 4096 {
		return SymPtr{S: s, Idx: idx}
	}
	i := x.Concretize(idx, "index of non-scalar element")
	return &s[i]
}

func (x *Exec) index(base Value, idx *Term) Value {
	switch b := base.(type) {
	case Array:
		x.boundsCheck(idx, len(b), "index")
		if idx.IsConst() {
			return b[idx.Int()]
		}
		if isScalarSlots(b) {
			return x.symRead(b, idx)
		}
		return b[x.Concretize(idx, "array index")]
	case Str:
		x.boundsCheck(idx, b.Len(), "string index")
		if idx.IsConst() {
			if b.Conc {
				return x.ts.BV(uint64(b.C[idx.Int()]), 8)
			}
			return b.B[idx.Int()]
		}
		bs := x.strBytes(b)
		vs := make([]Value, len(bs))
		for i := range bs {
			vs[i] = bs[i]
		}
		return x.symRead(vs, idx)
	}
	x.unsupported(fmt.Sprintf("Index on %T", base))
	return nil
}

func (x *Exec) symRead(s []Value, idx *Term) Value {
	r := s[len(s)-1].(*Term)
	for i := len(s) - 2; i >= 0; i-- {
		e := s[i].(*Term)
		if e == r {
			continue
		}
		r = x.ts.Ite(x.ts.Eq(idx, x.ts.BV(uint64(i), idx.W)), e, r)
	}
	return r
}

func (x *Exec) loadFrom(addr Value) Value {
	switch p := addr.(type) {
	case Ptr:
		if p == nil {
			x.targetPanicStr("runtime error: invalid memory address or nil pointer dereference")
		}
		if x.cm != nil && !x.cm.prelude && x.cm.isSharedCell(p) {
			return x.cm.sharedRead(p, "load")
		}
		return copyVal(*p)
	case SymPtr:
		return x.symRead(p.S, p.Idx)
	}
	x.unsupported(fmt.Sprintf("load from %T", addr))
	return nil
}

func (x *Exec) storeTo(addr Value, v Value) {
	switch p := addr.(type) {
	case Ptr:
		if p == nil {
			x.targetPanicStr("runtime error: invalid memory address or nil pointer dereference")
		}
		if x.cm != nil && !x.cm.prelude && x.cm.isSharedCell(p) {
			x.cm.sharedWrite(p, copyVal(v), "store")
			return
		}
		x.store(p, copyVal(v))
		return
	case SymPtr:
		nv := v.(*Term)
		for i := range p.S {
			old := p.S[i].(*Term)
			x.store(&p.S[i], x.ts.Ite(x.ts.Eq(p.Idx, x.ts.BV(uint64(i), p.Idx.W)), nv, old))
		}
		return
	}
	x.unsupported(fmt.Sprintf("store to %T", addr))
}

// store is the single mutation point of memory slots (journaled so a path can be undone).
func (x *Exec) store(p Ptr, v Value) {
	// aggregates are assigned element-wise into the existing slots: pointers to fields and
	// elements taken earlier stay valid, as they do in real memory
	switch nv := v.(type) {
	case Struct:
		if ov, ok := (*p).(Struct); ok && len(ov) == len(nv) {
			for i := range nv {
				x.store(&ov[i], nv[i])
			}
			return
		}
	case Array:
		if ov, ok := (*p).(Array); ok && len(ov) == len(nv) {
			for i := range nv {
				x.store(&ov[i], nv[i])
			}
			return
		}
	}
	if x.journalOn {
		old := *p
		x.journal = append(x.journal, func() { *p = old })
	}
	x.noteWrite(p)
	*p = v
}

func (x *Exec) sliceOp(instr *ssa.Slice, xv Value, lo, hi, max Value) Value {
	var s []Value
	var str *Str
	isNil := false
	switch b := xv.(type) {
	case Slice:
		s = b.S[:cap(b.S)]
		isNil = b.Nil
		_ = len(b.S)
	case Ptr:
		if b == nil {
			x.targetPanicStr("runtime error: slice of nil array pointer")
		}
		s = (*b).(Array)
	case Str:
		str = &b
	default:
		x.unsupported(fmt.Sprintf("slice of %T", xv))
	}
	var curLen, curCap int
	if str != nil {
		curLen, curCap = str.Len(), str.Len()
	} else if sl, ok := xv.(Slice); ok {
		curLen, curCap = len(sl.S), cap(sl.S)
	} else {
		curLen, curCap = len(s), len(s)
	}
	l, h, m := int64(0), int64(curLen), int64(curCap)
	if lo != nil {
		l = x.concreteInt(lo.(*Term), "slice low")
	}
	if hi != nil {
		h = x.concreteInt(hi.(*Term), "slice high")
	}
	if max != nil {
		m = x.concreteInt(max.(*Term), "slice max")
	}
	if l < 0 || h < l || m < h || m > int64(curCap) {
		x.targetPanicStr(fmt.Sprintf("runtime error: slice bounds out of range [%d:%d:%d] with capacity %d", l, h, m, curCap))
	}
	if str != nil {
		if str.Conc {
			return x.mkStr(str.C[l:h])
		}
		return x.normStr(str.B[l:h])
	}
	if isNil && l == 0 && h == 0 {
		return Slice{Nil: true}
	}
	return Slice{S: s[l:h:m]}
}

func (x *Exec) typeAssert(instr *ssa.TypeAssert, itf Iface) Value {
	var ok bool
	var v Value
	if idst, isI := instr.AssertedType.Underlying().(*types.Interface); isI {
		if itf.T != nil && x.implements(itf.T, idst) {
			ok = true
			v = itf
		}
	} else if itf.T != nil && types.Identical(itf.T, instr.AssertedType) {
		ok = true
		v = copyVal(itf.V)
	}
	if instr.CommaOk {
		if !ok {
			v = x.zero(instr.AssertedType)
		}
		return Tuple{v, x.ts.Bool(ok)}
	}
	if !ok {
		from := "nil"
		if itf.T != nil {
			from = itf.T.String()
		}
		x.targetPanicStr(fmt.Sprintf("interface conversion: interface is %s, not %s", from, instr.AssertedType))
	}
	return v
}

func (x *Exec) implements(t types.Type, i *types.Interface) bool {
	k := implKey{t, i}
	if r, ok := x.implCache[k]; ok {
		return r
	}
	r := types.Implements(t, i)
	x.implCache[k] = r
	return r
}

type implKey struct {
	t types.Type
	i *types.Interface
}

// ---------------------------------------------------------------------------
// maps

func (x *Exec) mapFind(m *Map, k Value) int {
	if m == nil {
		return -1
	}
	for i, e := range m.ents {
		eq := x.equal(m.kt, e.k, k)
		if eq.IsTrue() {
			return i
		}
		if eq.IsFalse() {
			continue
		}
		if x.Branch(eq) {
			return i
		}
	}
	return -1
}

func (x *Exec) mapSet(m *Map, k, v Value) {
	i := x.mapFind(m, k)
	if i >= 0 {
		e := m.ents[i]
		old := e.v
		if x.journalOn {
			x.journal = append(x.journal, func() { e.v = old })
		}
		e.v = v
		return
	}
	if x.journalOn {
		old := m.ents
		x.journal = append(x.journal, func() { m.ents = old })
	}
	m.ents = append(m.ents[:len(m.ents):len(m.ents)], &mapEnt{k: k, v: v})
}

func (x *Exec) mapDelete(m *Map, k Value) {
	i := x.mapFind(m, k)
	if i < 0 {
		return
	}
	if x.journalOn {
		old := m.ents
		x.journal = append(x.journal, func() { m.ents = old })
	}
	n := make([]*mapEnt, 0, len(m.ents)-1)
	n = append(n, m.ents[:i]...)
	n = append(n, m.ents[i+1:]...)
	m.ents = n
}

func (x *Exec) lookup(instr *ssa.Lookup, xv Value, k Value) Value {
	switch m := xv.(type) {
	case *Map:
		var v Value
		ok := false
		if i := x.mapFind(m, k); i >= 0 {
			v = copyVal(m.ents[i].v)
			ok = true
		} else {
			v = x.zero(instr.X.Type().Underlying().(*types.Map).Elem())
		}
		if instr.CommaOk {
			return Tuple{v, x.ts.Bool(ok)}
		}
		return v
	case Str:
		return x.index(m, x.idx64(k, instr.Index.Type()))
	}
	x.unsupported(fmt.Sprintf("lookup on %T", xv))
	return nil
}

type iter interface {
	next(x *Exec) Value
}

type mapIter struct {
	m    *Map
	ents []*mapEnt
	i    int
}

func (it *mapIter) next(x *Exec) Value {
	for it.i < len(it.ents) {
		e := it.ents[it.i]
		it.i++
		// skip entries deleted during iteration
		live := false
		for _, c := range it.m.ents {
			if c == e {
				live = true
				break
			}
		}
		if live {
			return Tuple{x.ts.T, copyVal(e.k), copyVal(e.v)}
		}
	}
	return Tuple{x.ts.F, nil, nil}
}

type strIter struct {
	s Str
	i int
}

func (it *strIter) next(x *Exec) Value {
	if it.i >= it.s.Len() {
		return Tuple{x.ts.F, x.ts.BV(0, 64), x.ts.BV(0, 32)}
	}
	if it.s.Conc {
		for j, r := range it.s.C[it.i:] {
			_ = j
			pos := it.i
			n := len(string(r))
			if r == 0xFFFD {
				n = 1
				// invalid byte or a real U+FFFD (3 bytes)
				if strings.HasPrefix(it.s.C[it.i:], "�") {
					n = 3
				}
			}
			it.i += n
			return Tuple{x.ts.T, x.ts.BV(uint64(pos), 64), x.ts.BV(uint64(r), 32)}
		}
	}
	b := it.s.B[it.i]
	if !x.Branch(x.ts.Cmp(OpULt, b, x.ts.BV(0x80, 8))) {
		x.unsupported("range over symbolic string with non-ASCII byte")
	}
	pos := it.i
	it.i++
	return Tuple{x.ts.T, x.ts.BV(uint64(pos), 64), x.ts.ZExt(b, 32)}
}

func (x *Exec) rangeIter(v Value, t types.Type) iter {
	switch v := v.(type) {
	case *Map:
		if v == nil {
			return &mapIter{m: &Map{}}
		}
		return &mapIter{m: v, ents: v.ents}
	case Str:
		return &strIter{s: v}
	}
	x.unsupported(fmt.Sprintf("range over %T", v))
	return nil
}
