// Package engine is gosym: a symbolic executor for Go SSA that emits SMT-LIB2.
package engine

import (
	"fmt"
	"math/bits"
	"sort"
	"strings"
)

// Op is a term constructor.
type Op uint8

const (
	OpConst Op = iota
	OpSym
	OpNot
	OpAnd
	OpOr
	OpIte
	OpEq
	OpAdd
	OpSub
	OpMul
	OpUDiv
	OpURem
	OpSDiv
	OpSRem
	OpBAnd
	OpBOr
	OpBXor
	OpShl
	OpLShr
	OpAShr
	OpBNot
	OpNeg
	OpULt
	OpULe
	OpSLt
	OpSLe
	OpZExt    // W = target width
	OpSExt    // W = target width
	OpExtract // Hi, Lo
	OpConcat
	OpSelect // uninterpreted byte array: Name(args[0]) -> BV8
)

var opSMT = map[Op]string{
	OpNot: "not", OpAnd: "and", OpOr: "or", OpIte: "ite", OpEq: "=",
	OpAdd: "bvadd", OpSub: "bvsub", OpMul: "bvmul", OpUDiv: "bvudiv", OpURem: "bvurem",
	OpSDiv: "bvsdiv", OpSRem: "bvsrem", OpBAnd: "bvand", OpBOr: "bvor", OpBXor: "bvxor",
	OpShl: "bvshl", OpLShr: "bvlshr", OpAShr: "bvashr", OpBNot: "bvnot", OpNeg: "bvneg",
	OpULt: "bvult", OpULe: "bvule", OpSLt: "bvslt", OpSLe: "bvsle", OpConcat: "concat",
}

// Term is a hash-consed SMT term. W == 0 means Bool, otherwise a bit-vector of width W (<= 64).
type Term struct {
	ID     int
	Op     Op
	W      int
	Args   []*Term
	C      uint64 // constant value (Bool: 0/1)
	Name   string // symbol name
	Hi, Lo int    // extract
}

// Terms is the hash-consing table; it lives for a whole run (shared between paths).
type Terms struct {
	tab  map[string]*Term
	list []*Term
	T, F *Term
}

func NewTerms() *Terms {
	ts := &Terms{tab: map[string]*Term{}}
	ts.T = ts.mk(&Term{Op: OpConst, W: 0, C: 1})
	ts.F = ts.mk(&Term{Op: OpConst, W: 0, C: 0})
	return ts
}

func (ts *Terms) key(t *Term) string {
	var sb strings.Builder
	fmt.Fprintf(&sb, "%d:%d:%d:%s:%d:%d", t.Op, t.W, t.C, t.Name, t.Hi, t.Lo)
	for _, a := range t.Args {
		fmt.Fprintf(&sb, ",%d", a.ID)
	}
	return sb.String()
}

func (ts *Terms) mk(t *Term) *Term {
	k := ts.key(t)
	if o, ok := ts.tab[k]; ok {
		return o
	}
	t.ID = len(ts.list)
	ts.list = append(ts.list, t)
	ts.tab[k] = t
	return t
}

func mask(w int) uint64 {
	if w >= 64 {
		return ^uint64(0)
	}
	return (uint64(1) << uint(w)) - 1
}

func sext(v uint64, w int) int64 {
	if w >= 64 {
		return int64(v)
	}
	s := uint(64 - w)
	return int64(v<<s) >> s
}

func (t *Term) IsConst() bool { return t.Op == OpConst }
func (t *Term) IsBool() bool  { return t.W == 0 }
func (t *Term) IsTrue() bool  { return t.Op == OpConst && t.W == 0 && t.C == 1 }
func (t *Term) IsFalse() bool { return t.Op == OpConst && t.W == 0 && t.C == 0 }

// Int returns the constant value as signed.
func (t *Term) Int() int64 { return sext(t.C, t.W) }

func (ts *Terms) BV(v uint64, w int) *Term {
	if w <= 0 || w > 64 {
		panic(fmt.Sprintf("BV width %d", w))
	}
	return ts.mk(&Term{Op: OpConst, W: w, C: v & mask(w)})
}

func (ts *Terms) Bool(b bool) *Term {
	if b {
		return ts.T
	}
	return ts.F
}

func (ts *Terms) Sym(name string, w int) *Term {
	return ts.mk(&Term{Op: OpSym, W: w, Name: name})
}

// Select is an uninterpreted byte read: array symbol `name` at 64-bit index idx.
func (ts *Terms) Select(name string, idx *Term) *Term {
	return ts.mk(&Term{Op: OpSelect, W: 8, Name: name, Args: []*Term{idx}})
}

func (ts *Terms) Not(a *Term) *Term {
	if a.IsConst() {
		return ts.Bool(a.C == 0)
	}
	if a.Op == OpNot {
		return a.Args[0]
	}
	return ts.mk(&Term{Op: OpNot, Args: []*Term{a}})
}

func (ts *Terms) And(a, b *Term) *Term {
	if a.IsFalse() || b.IsFalse() {
		return ts.F
	}
	if a.IsTrue() {
		return b
	}
	if b.IsTrue() {
		return a
	}
	if a == b {
		return a
	}
	if a.ID > b.ID {
		a, b = b, a
	}
	return ts.mk(&Term{Op: OpAnd, Args: []*Term{a, b}})
}

func (ts *Terms) Or(a, b *Term) *Term {
	if a.IsTrue() || b.IsTrue() {
		return ts.T
	}
	if a.IsFalse() {
		return b
	}
	if b.IsFalse() {
		return a
	}
	if a == b {
		return a
	}
	if a.ID > b.ID {
		a, b = b, a
	}
	return ts.mk(&Term{Op: OpOr, Args: []*Term{a, b}})
}

func (ts *Terms) Implies(a, b *Term) *Term { return ts.Or(ts.Not(a), b) }

func (ts *Terms) Ite(c, a, b *Term) *Term {
	if c.IsTrue() {
		return a
	}
	if c.IsFalse() {
		return b
	}
	if a == b {
		return a
	}
	if a.W != b.W {
		panic(fmt.Sprintf("ite sort mismatch %d %d", a.W, b.W))
	}
	if a.W == 0 {
		if a.IsTrue() && b.IsFalse() {
			return c
		}
		if a.IsFalse() && b.IsTrue() {
			return ts.Not(c)
		}
	}
	return ts.mk(&Term{Op: OpIte, W: a.W, Args: []*Term{c, a, b}})
}

func (ts *Terms) Eq(a, b *Term) *Term {
	if a.W != b.W {
		panic(fmt.Sprintf("eq sort mismatch %d %d", a.W, b.W))
	}
	if a == b {
		return ts.T
	}
	if a.IsConst() && b.IsConst() {
		return ts.Bool(a.C == b.C)
	}
	if a.W == 0 {
		if a.IsConst() {
			a, b = b, a
		}
		if b.IsTrue() {
			return a
		}
		if b.IsFalse() {
			return ts.Not(a)
		}
	}
	// eq(ite(c,k1,k2), k) with constants folds to a boolean over c
	if b.IsConst() && a.Op == OpIte && a.Args[1].IsConst() && a.Args[2].IsConst() {
		return ts.Ite(a.Args[0], ts.Bool(a.Args[1].C == b.C), ts.Bool(a.Args[2].C == b.C))
	}
	if a.IsConst() && b.Op == OpIte && b.Args[1].IsConst() && b.Args[2].IsConst() {
		return ts.Ite(b.Args[0], ts.Bool(b.Args[1].C == a.C), ts.Bool(b.Args[2].C == a.C))
	}
	if a.ID > b.ID {
		a, b = b, a
	}
	return ts.mk(&Term{Op: OpEq, Args: []*Term{a, b}})
}

func evalBin(op Op, w int, x, y uint64) (uint64, bool) {
	m := mask(w)
	switch op {
	case OpAdd:
		return (x + y) & m, true
	case OpSub:
		return (x - y) & m, true
	case OpMul:
		return (x * y) & m, true
	case OpUDiv:
		if y == 0 {
			return m, true
		}
		return x / y, true
	case OpURem:
		if y == 0 {
			return x, true
		}
		return x % y, true
	case OpSDiv:
		sx, sy := sext(x, w), sext(y, w)
		if sy == 0 {
			if sx < 0 {
				return 1, true
			}
			return m, true
		}
		if sy == -1 {
			return uint64(-sx) & m, true
		}
		return uint64(sx/sy) & m, true
	case OpSRem:
		sx, sy := sext(x, w), sext(y, w)
		if sy == 0 {
			return x, true
		}
		if sy == -1 {
			return 0, true
		}
		return uint64(sx%sy) & m, true
	case OpBAnd:
		return x & y, true
	case OpBOr:
		return x | y, true
	case OpBXor:
		return x ^ y, true
	case OpShl:
		if y >= uint64(w) {
			return 0, true
		}
		return (x << y) & m, true
	case OpLShr:
		if y >= uint64(w) {
			return 0, true
		}
		return x >> y, true
	case OpAShr:
		sx := sext(x, w)
		if y >= uint64(w) {
			y = uint64(w - 1)
			if w == 64 {
				y = 63
			}
		}
		return uint64(sx>>y) & m, true
	}
	return 0, false
}

func evalCmp(op Op, w int, x, y uint64) bool {
	switch op {
	case OpULt:
		return x < y
	case OpULe:
		return x <= y
	case OpSLt:
		return sext(x, w) < sext(y, w)
	case OpSLe:
		return sext(x, w) <= sext(y, w)
	}
	panic("evalCmp")
}

// Bin builds a bit-vector binary operation.
func (ts *Terms) Bin(op Op, a, b *Term) *Term {
	if a.W != b.W || a.W == 0 {
		panic(fmt.Sprintf("bin %v width mismatch %d %d", op, a.W, b.W))
	}
	w := a.W
	if a.IsConst() && b.IsConst() {
		v, _ := evalBin(op, w, a.C, b.C)
		return ts.BV(v, w)
	}
	// op(ite-tree of constants, constant): push the operation into the leaves
	if b.IsConst() && a.Op == OpIte && constIteLeaves(a, 64) > 0 {
		return ts.mapConstIte(a, func(l *Term) *Term { return ts.Bin(op, l, b) })
	}
	if a.IsConst() && b.Op == OpIte && constIteLeaves(b, 64) > 0 {
		return ts.mapConstIte(b, func(l *Term) *Term { return ts.Bin(op, a, l) })
	}
	switch op {
	case OpAdd, OpBOr, OpBXor:
		if a.IsConst() && a.C == 0 {
			return b
		}
		if b.IsConst() && b.C == 0 {
			return a
		}
		if op == OpBXor && a == b {
			return ts.BV(0, w)
		}
		if op == OpBOr && a == b {
			return a
		}
	case OpSub:
		if b.IsConst() && b.C == 0 {
			return a
		}
		if a == b {
			return ts.BV(0, w)
		}
		// x - (x / k) * k  =>  x % k  (both for the unsigned and the truncating signed division)
		if b.Op == OpMul && b.Args[1].IsConst() && b.Args[1].C != 0 {
			if d := b.Args[0]; (d.Op == OpUDiv || d.Op == OpSDiv) && d.Args[0] == a && d.Args[1].IsConst() && d.Args[1].C == b.Args[1].C {
				if d.Op == OpUDiv {
					return ts.Bin(OpURem, a, d.Args[1])
				}
				return ts.Bin(OpSRem, a, d.Args[1])
			}
		}
	case OpMul:
		if a.IsConst() && a.C == 1 {
			return b
		}
		if b.IsConst() && b.C == 1 {
			return a
		}
		if (a.IsConst() && a.C == 0) || (b.IsConst() && b.C == 0) {
			return ts.BV(0, w)
		}
	case OpBAnd:
		if (a.IsConst() && a.C == 0) || (b.IsConst() && b.C == 0) {
			return ts.BV(0, w)
		}
		if a.IsConst() && a.C == mask(w) {
			return b
		}
		if b.IsConst() && b.C == mask(w) {
			return a
		}
		if a == b {
			return a
		}
	case OpShl, OpLShr, OpAShr:
		if b.IsConst() && b.C == 0 {
			return a
		}
		if a.IsConst() && a.C == 0 {
			return a
		}
	case OpUDiv:
		if b.IsConst() && b.C == 1 {
			return a
		}
	}
	// x + (-x) => 0
	if op == OpAdd {
		if (b.Op == OpNeg && b.Args[0] == a) || (a.Op == OpNeg && a.Args[0] == b) {
			return ts.BV(0, w)
		}
	}
	// (x + c1) + c2 => x + (c1+c2)
	if op == OpAdd {
		if a.IsConst() {
			a, b = b, a
		}
		if b.IsConst() && a.Op == OpAdd && a.Args[1].IsConst() {
			return ts.Bin(OpAdd, a.Args[0], ts.BV(a.Args[1].C+b.C, w))
		}
	}
	if op == OpSub && b.IsConst() {
		return ts.Bin(OpAdd, a, ts.BV(-b.C, w))
	}
	if (op == OpMul || op == OpBAnd || op == OpBOr || op == OpBXor) && a.IsConst() {
		a, b = b, a
	}
	return ts.mk(&Term{Op: op, W: w, Args: []*Term{a, b}})
}

func (ts *Terms) Cmp(op Op, a, b *Term) *Term {
	if a.W != b.W || a.W == 0 {
		panic(fmt.Sprintf("cmp width mismatch %d %d", a.W, b.W))
	}
	if a.IsConst() && b.IsConst() {
		return ts.Bool(evalCmp(op, a.W, a.C, b.C))
	}
	if a == b {
		return ts.Bool(op == OpULe || op == OpSLe)
	}
	if b.IsConst() && a.Op == OpIte && constIteLeaves(a, 64) > 0 {
		return ts.mapConstIte(a, func(l *Term) *Term { return ts.Cmp(op, l, b) })
	}
	if a.IsConst() && b.Op == OpIte && constIteLeaves(b, 64) > 0 {
		return ts.mapConstIte(b, func(l *Term) *Term { return ts.Cmp(op, a, l) })
	}
	if op == OpULt && b.IsConst() && b.C == 0 {
		return ts.F
	}
	if op == OpULe && a.IsConst() && a.C == 0 {
		return ts.T
	}
	// cmp(zext(x), const) where const exceeds x's range
	if op == OpULt && b.IsConst() && a.Op == OpZExt && b.C > mask(a.Args[0].W) {
		return ts.T
	}
	if op == OpULe && b.IsConst() && a.Op == OpZExt && b.C >= mask(a.Args[0].W) {
		return ts.T
	}
	return ts.mk(&Term{Op: op, Args: []*Term{a, b}})
}

func (ts *Terms) BNot(a *Term) *Term {
	if a.IsConst() {
		return ts.BV(^a.C, a.W)
	}
	return ts.mk(&Term{Op: OpBNot, W: a.W, Args: []*Term{a}})
}

func (ts *Terms) Neg(a *Term) *Term {
	if a.IsConst() {
		return ts.BV(-a.C, a.W)
	}
	return ts.mk(&Term{Op: OpNeg, W: a.W, Args: []*Term{a}})
}

func (ts *Terms) Extract(a *Term, hi, lo int) *Term {
	if hi < lo || hi >= a.W {
		panic(fmt.Sprintf("extract %d %d of %d", hi, lo, a.W))
	}
	if lo == 0 && hi == a.W-1 {
		return a
	}
	w := hi - lo + 1
	if a.IsConst() {
		return ts.BV(a.C>>uint(lo), w)
	}
	if (a.Op == OpZExt || a.Op == OpSExt) && hi < a.Args[0].W {
		return ts.Extract(a.Args[0], hi, lo)
	}
	if a.Op == OpZExt && lo >= a.Args[0].W {
		return ts.BV(0, w)
	}
	if a.Op == OpConcat {
		lw := a.Args[1].W
		if hi < lw {
			return ts.Extract(a.Args[1], hi, lo)
		}
		if lo >= lw {
			return ts.Extract(a.Args[0], hi-lw, lo-lw)
		}
	}
	if a.Op == OpIte && a.Args[1].IsConst() && a.Args[2].IsConst() {
		return ts.Ite(a.Args[0], ts.Extract(a.Args[1], hi, lo), ts.Extract(a.Args[2], hi, lo))
	}
	return ts.mk(&Term{Op: OpExtract, W: w, Args: []*Term{a}, Hi: hi, Lo: lo})
}

func (ts *Terms) ZExt(a *Term, w int) *Term {
	if w == a.W {
		return a
	}
	if w < a.W {
		return ts.Extract(a, w-1, 0)
	}
	if a.IsConst() {
		return ts.BV(a.C, w)
	}
	if a.Op == OpZExt {
		return ts.ZExt(a.Args[0], w)
	}
	if a.Op == OpIte && a.Args[1].IsConst() && a.Args[2].IsConst() {
		return ts.Ite(a.Args[0], ts.ZExt(a.Args[1], w), ts.ZExt(a.Args[2], w))
	}
	return ts.mk(&Term{Op: OpZExt, W: w, Args: []*Term{a}})
}

func (ts *Terms) SExt(a *Term, w int) *Term {
	if w == a.W {
		return a
	}
	if w < a.W {
		return ts.Extract(a, w-1, 0)
	}
	if a.IsConst() {
		return ts.BV(uint64(sext(a.C, a.W)), w)
	}
	if a.Op == OpIte && a.Args[1].IsConst() && a.Args[2].IsConst() {
		return ts.Ite(a.Args[0], ts.SExt(a.Args[1], w), ts.SExt(a.Args[2], w))
	}
	return ts.mk(&Term{Op: OpSExt, W: w, Args: []*Term{a}})
}

func (ts *Terms) Concat(hi, lo *Term) *Term {
	w := hi.W + lo.W
	if w > 64 {
		panic("concat > 64")
	}
	if hi.IsConst() && lo.IsConst() {
		return ts.BV(hi.C<<uint(lo.W)|lo.C, w)
	}
	if hi.IsConst() && hi.C == 0 {
		return ts.ZExt(lo, w)
	}
	return ts.mk(&Term{Op: OpConcat, W: w, Args: []*Term{hi, lo}})
}

// ---------------------------------------------------------------------------
// evaluation under a model

// Model maps symbol names to values; SelectVals maps "array@index" to byte values.
type Model struct {
	Vals map[string]uint64
	Sel  map[string]map[uint64]uint64
}

func (m *Model) Clone() *Model {
	n := &Model{Vals: make(map[string]uint64, len(m.Vals))}
	for k, v := range m.Vals {
		n.Vals[k] = v
	}
	if m.Sel != nil {
		n.Sel = map[string]map[uint64]uint64{}
		for k, v := range m.Sel {
			mm := map[uint64]uint64{}
			for a, b := range v {
				mm[a] = b
			}
			n.Sel[k] = mm
		}
	}
	return n
}

// Eval evaluates t under m; symbols not in m are 0. ok=false if t contains a
// Select whose index is not in the model (then the caller must ask the solver).
func (ts *Terms) Eval(t *Term, m *Model, memo map[int]uint64) (uint64, bool) {
	if t.Op == OpConst {
		return t.C, true
	}
	if v, ok := memo[t.ID]; ok {
		return v, true
	}
	var r uint64
	switch t.Op {
	case OpSym:
		if m != nil {
			r = m.Vals[t.Name] & maskOrBool(t.W)
		}
	case OpSelect:
		i, ok := ts.Eval(t.Args[0], m, memo)
		if !ok {
			return 0, false
		}
		if m == nil || m.Sel == nil {
			return 0, false
		}
		tab, ok := m.Sel[t.Name]
		if !ok {
			return 0, false
		}
		v, ok := tab[i]
		if !ok {
			return 0, false
		}
		r = v & 0xff
	default:
		var a [3]uint64
		for i, x := range t.Args {
			v, ok := ts.Eval(x, m, memo)
			if !ok {
				return 0, false
			}
			a[i] = v
		}
		switch t.Op {
		case OpNot:
			r = 1 - a[0]
		case OpAnd:
			r = a[0] & a[1]
		case OpOr:
			r = a[0] | a[1]
		case OpIte:
			if a[0] != 0 {
				r = a[1]
			} else {
				r = a[2]
			}
		case OpEq:
			if a[0] == a[1] {
				r = 1
			}
		case OpULt, OpULe, OpSLt, OpSLe:
			if evalCmp(t.Op, t.Args[0].W, a[0], a[1]) {
				r = 1
			}
		case OpBNot:
			r = ^a[0] & mask(t.W)
		case OpNeg:
			r = -a[0] & mask(t.W)
		case OpZExt:
			r = a[0]
		case OpSExt:
			r = uint64(sext(a[0], t.Args[0].W)) & mask(t.W)
		case OpExtract:
			r = (a[0] >> uint(t.Lo)) & mask(t.W)
		case OpConcat:
			r = a[0]<<uint(t.Args[1].W) | a[1]
		default:
			v, ok := evalBin(t.Op, t.W, a[0], a[1])
			if !ok {
				panic(fmt.Sprintf("eval: op %d", t.Op))
			}
			r = v
		}
	}
	memo[t.ID] = r
	return r, true
}

func maskOrBool(w int) uint64 {
	if w == 0 {
		return 1
	}
	return mask(w)
}

// ---------------------------------------------------------------------------
// printing

func sortSMT(w int) string {
	if w == 0 {
		return "Bool"
	}
	return fmt.Sprintf("(_ BitVec %d)", w)
}

func constSMT(t *Term) string {
	if t.W == 0 {
		if t.C == 1 {
			return "true"
		}
		return "false"
	}
	if t.W%4 == 0 {
		return fmt.Sprintf("#x%0*x", t.W/4, t.C)
	}
	return fmt.Sprintf("#b%0*b", t.W, t.C)
}

func symSMT(name string) string { return "|" + name + "|" }

// ref returns how term t is referred to inside other terms once defined.
func ref(t *Term) string {
	switch t.Op {
	case OpConst:
		return constSMT(t)
	case OpSym:
		return symSMT(t.Name)
	}
	return fmt.Sprintf("t%d", t.ID)
}

// body prints the defining expression of t in terms of refs of its args.
func body(t *Term) string {
	switch t.Op {
	case OpZExt:
		return fmt.Sprintf("((_ zero_extend %d) %s)", t.W-t.Args[0].W, ref(t.Args[0]))
	case OpSExt:
		return fmt.Sprintf("((_ sign_extend %d) %s)", t.W-t.Args[0].W, ref(t.Args[0]))
	case OpExtract:
		return fmt.Sprintf("((_ extract %d %d) %s)", t.Hi, t.Lo, ref(t.Args[0]))
	case OpSelect:
		return fmt.Sprintf("(%s %s)", symSMT(t.Name), ref(t.Args[0]))
	}
	var sb strings.Builder
	sb.WriteString("(")
	sb.WriteString(opSMT[t.Op])
	for _, a := range t.Args {
		sb.WriteString(" ")
		sb.WriteString(ref(a))
	}
	sb.WriteString(")")
	return sb.String()
}

// Deps returns, in dependency order, the non-leaf subterms of the roots not yet in
// `defined`, plus the symbols/arrays not yet in `declared`.
func collect(roots []*Term, defined map[int]bool, declared map[string]bool) (decls []string, defs []*Term) {
	seen := map[int]bool{}
	var visit func(t *Term)
	visit = func(t *Term) {
		if seen[t.ID] {
			return
		}
		seen[t.ID] = true
		switch t.Op {
		case OpConst:
			return
		case OpSym:
			if !declared[t.Name] {
				declared[t.Name] = true
				decls = append(decls, fmt.Sprintf("(declare-fun %s () %s)", symSMT(t.Name), sortSMT(t.W)))
			}
			return
		}
		if defined[t.ID] {
			return
		}
		for _, a := range t.Args {
			visit(a)
		}
		if t.Op == OpSelect && !declared["@"+t.Name] {
			declared["@"+t.Name] = true
			decls = append(decls, fmt.Sprintf("(declare-fun %s ((_ BitVec 64)) (_ BitVec 8))", symSMT(t.Name)))
		}
		defined[t.ID] = true
		defs = append(defs, t)
	}
	for _, r := range roots {
		visit(r)
	}
	return
}

// Syms returns the symbol terms below the roots, sorted by name.
func Syms(roots []*Term) []*Term {
	seen := map[int]bool{}
	var out []*Term
	var visit func(t *Term)
	visit = func(t *Term) {
		if seen[t.ID] {
			return
		}
		seen[t.ID] = true
		if t.Op == OpSym {
			out = append(out, t)
		}
		for _, a := range t.Args {
			visit(a)
		}
	}
	for _, r := range roots {
		visit(r)
	}
	sort.Slice(out, func(i, j int) bool { return out[i].Name < out[j].Name })
	return out
}

// Selects returns the Select terms below the roots.
func Selects(roots []*Term) []*Term {
	seen := map[int]bool{}
	var out []*Term
	var visit func(t *Term)
	visit = func(t *Term) {
		if seen[t.ID] {
			return
		}
		seen[t.ID] = true
		if t.Op == OpSelect {
			out = append(out, t)
		}
		for _, a := range t.Args {
			visit(a)
		}
	}
	for _, r := range roots {
		visit(r)
	}
	return out
}

// Pretty prints a term for humans (bounded depth).
func (t *Term) String() string { return pretty(t, 6) }

func pretty(t *Term, d int) string {
	switch t.Op {
	case OpConst:
		if t.W == 0 {
			return constSMT(t)
		}
		return fmt.Sprintf("%d", t.C)
	case OpSym:
		return t.Name
	}
	if d == 0 {
		return "…"
	}
	var parts []string
	for _, a := range t.Args {
		parts = append(parts, pretty(a, d-1))
	}
	name := opSMT[t.Op]
	switch t.Op {
	case OpZExt:
		name = fmt.Sprintf("zext%d", t.W)
	case OpSExt:
		name = fmt.Sprintf("sext%d", t.W)
	case OpExtract:
		name = fmt.Sprintf("extract[%d:%d]", t.Hi, t.Lo)
	case OpSelect:
		name = "sel:" + t.Name
	}
	return "(" + name + " " + strings.Join(parts, " ") + ")"
}

var _ = bits.Len

// constIteLeaves counts the leaves of an if-then-else tree whose leaves are all constants
// (0 if t is not such a tree or has more than max leaves).
func constIteLeaves(t *Term, max int) int {
	if t.IsConst() {
		return 1
	}
	if t.Op != OpIte {
		return 0
	}
	a := constIteLeaves(t.Args[1], max)
	if a == 0 {
		return 0
	}
	b := constIteLeaves(t.Args[2], max-a)
	if b == 0 || a+b > max {
		return 0
	}
	return a + b
}

// mapConstIte applies f to every (constant) leaf of an if-then-else tree.
func (ts *Terms) mapConstIte(t *Term, f func(*Term) *Term) *Term {
	if t.IsConst() {
		return f(t)
	}
	return ts.Ite(t.Args[0], ts.mapConstIte(t.Args[1], f), ts.mapConstIte(t.Args[2], f))
}
