package engine

import (
	"fmt"
	"go/types"
	"os"
	"runtime/debug"
	"sort"
	"strings"
	"sync"
	"time"

	"golang.org/x/tools/go/ssa"
)

// Config bounds one exploration.
type Config struct {
	MaxSteps     int    // SSA instructions per path
	MaxDecisions int    // symbolic decisions per path (the unwinding bound)
	MaxPaths     int    // paths per exploration (exceeding => inconclusive)
	Solver       string // primary solver
	TimeoutS     int    // per-query timeout
	Shard        int    // value returned by lib.VerifShard
	Params       map[string]int64
	Deadline     time.Time
	Trace        bool
	CSolver      string // solver for the concurrency query (z3 | z3new | cvc5)
	CTimeoutS    int
	CPar         int // parallel solver processes for the concurrency query (violating leaves are split into groups)
}

type decision struct {
	choice   bool
	alt      bool   // other side still to explore
	altModel *Model // model for pc ∧ other side
	kind     byte   // 'b' branch, 'a' assert/assume (no alternative), 'c' concretize (val), 'n' enumeration
	val      uint64
	nAlt     int
}

// Violation is a failed assertion with the model that falsifies it.
type Violation struct {
	Tag       string            `json:"tag"`
	Inputs    map[string]uint64 `json:"inputs"`
	Order     []string          `json:"order"`
	Where     string            `json:"where,omitempty"`
	Path      int               `json:"path"`
	Confirmed string            `json:"confirmed,omitempty"`
}

type timerObj struct {
	dur    int64
	seq    int
	fn     Value
	ch     *Chan
	active bool
	fired  bool
}

// G is an interpreted goroutine, run on its own native goroutine, one at a time.
type G struct {
	id       int
	wake     chan struct{}
	fn       Value
	args     []Value
	started  bool
	done     bool
	cond     func() bool
	what     string
	curFrame *frame
	origin   string
}

// Exec is one symbolic executor instance (not safe for concurrent use).
type Exec struct {
	prog          *ssa.Program
	ts            *Terms
	cfg           Config
	solver        *Solver
	globals       map[*ssa.Global]Ptr
	runtimeErrorT types.Type
	rtypeT        types.Type
	cm            *CMode
	implCache     map[implKey]bool

	// init
	lenient      int
	lenientSkips map[string]int
	initDone     map[*ssa.Package]bool
	journalOn    bool
	journal      []func()

	// per path
	pc            []*Term
	model         *Model
	memo          map[int]uint64
	dec           []decision
	pos           int
	symN          map[string]int
	inputs        []*Term
	steps         int
	ivMemo        map[int]ival // ranges under the current bounds (dropped when a bound tightens)
	noFold        bool
	Folded        int
	Summarised    int // calls of time.absDate answered by the month-table summary
	hangAt        int // VerifStepBound: step count at which the path counts as not terminating
	depth         int
	cur           *G
	gs            []*G
	curFrame      *frame
	timers        []*timerObj
	timerSeq      int
	locks         map[Ptr]*lockState
	wgs           map[Ptr]*int64
	onces         map[Ptr]bool
	smaps         map[Ptr]*Map
	ptrAddr       map[Ptr]uint64
	addrPtr       map[uint64]Ptr
	ptrSeq        uint64
	chanSeq       int
	mapSeq        int
	recovered     int
	nowN          int
	lastNow       [2]*Term
	pathDone      chan pathEnd
	aborting      bool
	wg            sync.WaitGroup
	allocMax      int64
	allocs        []int64
	pathNotes     []string
	wallMs        map[int]*Term
	provided      map[string]Value
	manualClock   *Term
	randSeq       int
	clockSteps    []int64 // VerifClockSteps: per-read advance choices (ms)
	timerObjs     map[Ptr]*timerObj
	opaqueN       int
	fmtSymbolic   int
	unknownBranch bool
	bounds        symBounds
	pendingSigned []*Term
	pcSet         map[int]bool
	Pruned        int

	// results
	Paths       int
	PathKinds   map[string]int
	Violations  []Violation
	violTag     map[string]int
	Reached     map[string]int
	Funcs       map[string]bool
	Intrinsics  map[string]bool
	Assumes     map[string]int
	Inconcl     []string
	Samples     []map[string]uint64
	MaxDepthDec int
	Decisions   int
	AssertsOK   map[string]int
	AssertsQ    int
}

func NewExec(prog *ssa.Program, cfg Config) (*Exec, error) {
	if cfg.MaxSteps == 0 {
		cfg.MaxSteps = 3_000_000
	}
	if cfg.MaxDecisions == 0 {
		cfg.MaxDecisions = 400
	}
	if cfg.MaxPaths == 0 {
		cfg.MaxPaths = 200000
	}
	if cfg.Solver == "" {
		cfg.Solver = "z3"
	}
	if cfg.TimeoutS == 0 {
		cfg.TimeoutS = 60
	}
	s, err := NewSolver(cfg.Solver, cfg.TimeoutS)
	if err != nil {
		return nil, err
	}
	x := &Exec{
		prog: prog, ts: NewTerms(), cfg: cfg, solver: s,
		globals:      map[*ssa.Global]Ptr{},
		implCache:    map[implKey]bool{},
		lenientSkips: map[string]int{},
		initDone:     map[*ssa.Package]bool{},
		PathKinds:    map[string]int{},
		violTag:      map[string]int{},
		Reached:      map[string]int{},
		Funcs:        map[string]bool{},
		Intrinsics:   map[string]bool{},
		Assumes:      map[string]int{},
		AssertsOK:    map[string]int{},
	}
	if rt := prog.ImportedPackage("runtime"); rt != nil {
		if m := rt.Type("errorString"); m != nil {
			x.runtimeErrorT = m.Object().Type()
		}
	}
	return x, nil
}

func (x *Exec) Close()          { x.solver.Close() }
func (x *Exec) Solver() *Solver { return x.solver }
func (x *Exec) Terms() *Terms   { return x.ts }

func (x *Exec) noteFunc(fn *ssa.Function, intrinsic bool) {
	if intrinsic {
		x.Intrinsics[funcKey(fn)] = true
	} else if x.lenient == 0 {
		x.Funcs[fn.String()] = true
	}
}
func (x *Exec) noteRead(p Ptr)  {}
func (x *Exec) noteWrite(p Ptr) {}

var gcSizes = types.SizesFor("gc", "amd64")

// elemSize is the size in bytes of one element of type t (1 if unknown).
func elemSize(t types.Type) int64 {
	if t == nil {
		return 1
	}
	defer func() { recover() }()
	if n := gcSizes.Sizeof(t); n > 0 {
		return n
	}
	return 1
}

// noteAlloc records a single allocation of n bytes (allocation monitor for C16).
func (x *Exec) noteAlloc(n int64) {
	if n > x.allocMax {
		x.allocMax = n
	}
}

// ---------------------------------------------------------------------------
// symbols, branching

// Fresh returns the next symbol named after `name` on this path.
func (x *Exec) Fresh(name string, w int) *Term {
	k := x.symN[name]
	x.symN[name] = k + 1
	t := x.ts.Sym(fmt.Sprintf("%s#%d", name, k), w)
	x.inputs = append(x.inputs, t)
	return t
}

func (x *Exec) eval(c *Term) (uint64, bool) {
	if x.memo == nil {
		x.memo = map[int]uint64{}
	}
	return x.ts.Eval(c, x.model, x.memo)
}

// hint sets the value of a fresh, still unconstrained symbol in the current model.
func (x *Exec) hint(sym *Term, v uint64) {
	if x.model == nil || x.pos < len(x.dec) {
		return
	}
	m := x.model.Clone()
	m.Vals[sym.Name] = v
	x.model = m
	delete(x.memo, sym.ID)
}

func (x *Exec) setModel(m *Model) {
	x.model = m
	x.memo = nil
}

func (x *Exec) check(extra *Term) (Result, *Model) {
	if !x.cfg.Deadline.IsZero() && time.Now().After(x.cfg.Deadline) {
		panic(pathEnd{kind: "deadline", msg: "time budget exhausted"})
	}
	conj := append(append([]*Term{}, x.pc...), extra)
	r, m, err := x.solver.Check(conj, true)
	if err != nil {
		x.note("solver: " + err.Error())
	}
	return r, m
}

func (x *Exec) note(s string) {
	for _, n := range x.Inconcl {
		if n == s {
			return
		}
	}
	if len(x.Inconcl) < 50 {
		x.Inconcl = append(x.Inconcl, s)
	}
}

// addPC appends a conjunct to the path condition and updates the cheap indexes.
func (x *Exec) addPC(c *Term) {
	x.pc = append(x.pc, c)
	x.pcSet[c.ID] = true
	x.learn(c)
}

// quick decides c from the path condition's syntax and interval bounds: 1, 0 or -1 (ask the solver).
func (x *Exec) quick(c *Term) int {
	if x.pcSet[c.ID] {
		return 1
	}
	if x.pcSet[x.ts.Not(c).ID] {
		return 0
	}
	if x.ivMemo == nil {
		x.ivMemo = map[int]ival{}
	}
	return x.decide(c, x.ivMemo)
}

// Branch decides a symbolic condition for this path, scheduling the other side if feasible.
func (x *Exec) Branch(c *Term) bool {
	if c.IsConst() {
		return c.C == 1
	}
	ts := x.ts
	if q := x.quick(c); q >= 0 {
		// decided without the solver; deterministic on re-execution (depends on the path condition only)
		x.Pruned++
		return q == 1
	}
	if x.pos < len(x.dec) {
		d := x.dec[x.pos]
		if d.kind != 'b' {
			panic(pathEnd{kind: "internal", msg: "replay divergence in Branch" + x.whereAmI()})
		}
		x.pos++
		if d.choice {
			x.addPC(c)
		} else {
			x.addPC(ts.Not(c))
		}
		if x.pos == len(x.dec) && d.altModel != nil {
			x.setModel(d.altModel)
		}
		return d.choice
	}
	if len(x.dec) >= x.cfg.MaxDecisions {
		panic(pathEnd{kind: "unwind", msg: fmt.Sprintf("decision bound %d reached", x.cfg.MaxDecisions) + x.whereAmI()})
	}
	x.Decisions++
	v, ok := x.eval(c)
	var d decision
	d.kind = 'b'
	if ok {
		side := v == 1
		other := c
		if side {
			other = ts.Not(c)
		}
		r, m := x.check(other)
		d.choice = side
		switch r {
		case Sat:
			d.alt, d.altModel = true, m
		case Unknown:
			x.note("feasibility unknown; treated as infeasible-unknown (inconclusive)")
			x.unknownBranch = true
		}
	} else {
		r1, m1 := x.check(c)
		r2, m2 := x.check(ts.Not(c))
		switch {
		case r1 == Sat && r2 == Sat:
			d.choice, d.alt, d.altModel = true, true, m2
			x.setModel(m1)
		case r1 == Sat:
			d.choice = true
			x.setModel(m1)
		case r2 == Sat:
			d.choice = false
			x.setModel(m2)
		default:
			if r1 == Unknown || r2 == Unknown {
				x.note("feasibility unknown (select)")
				x.unknownBranch = true
			}
			panic(pathEnd{kind: "infeasible", msg: "both sides infeasible"})
		}
	}
	x.dec = append(x.dec, d)
	x.pos++
	if d.choice {
		x.addPC(c)
	} else {
		x.addPC(ts.Not(c))
	}
	return d.choice
}

// Assume adds c to the path condition; the path ends silently if that is infeasible.
func (x *Exec) Assume(c *Term, what string) {
	if c.IsTrue() {
		return
	}
	x.Assumes[what]++
	if c.IsFalse() {
		panic(pathEnd{kind: "infeasible", msg: "assume false: " + what})
	}
	if x.pos < len(x.dec) {
		x.pos++
		x.addPC(c)
		if x.pos == len(x.dec) && x.dec[x.pos-1].altModel != nil {
			x.setModel(x.dec[x.pos-1].altModel)
		}
		return
	}
	d := decision{choice: true, kind: 'a'}
	if v, ok := x.eval(c); !ok || v != 1 {
		r, m := x.check(c)
		switch r {
		case Sat:
			x.setModel(m)
			d.altModel = m
		case Unknown:
			x.note("assume feasibility unknown: " + what)
			x.unknownBranch = true
			panic(pathEnd{kind: "infeasible", msg: "assume unknown: " + what})
		default:
			panic(pathEnd{kind: "infeasible", msg: "assume: " + what})
		}
	}
	x.dec = append(x.dec, d)
	x.pos++
	x.addPC(c)
}

// Assert checks that c holds for every input reaching this point.
func (x *Exec) Assert(c *Term, tag string) {
	if c.IsTrue() {
		x.AssertsOK[tag]++
		return
	}
	if x.pos < len(x.dec) {
		// already decided on an earlier run of this prefix
		x.pos++
		x.addPC(c)
		if x.pos == len(x.dec) && x.dec[x.pos-1].altModel != nil {
			x.setModel(x.dec[x.pos-1].altModel)
		}
		return
	}
	d := decision{choice: true, kind: 'a'}
	var bad *Model
	if c.IsFalse() {
		bad = x.model
	} else if v, ok := x.eval(c); ok && v == 0 {
		bad = x.model
	} else {
		x.AssertsQ++
		r, m := x.check(x.ts.Not(c))
		switch r {
		case Sat:
			bad = m
		case Unknown:
			x.note("assertion unknown: " + tag)
			x.unknownBranch = true
		default:
			x.AssertsOK[tag]++
		}
	}
	if bad != nil {
		x.violation(tag, bad)
		// continue under c if possible
		if c.IsFalse() {
			panic(pathEnd{kind: "violation-stop"})
		}
		if v, ok := x.eval(c); !ok || v != 1 {
			r, m := x.check(c)
			if r != Sat {
				panic(pathEnd{kind: "violation-stop"})
			}
			x.setModel(m)
			d.altModel = m
		}
	}
	x.dec = append(x.dec, d)
	x.pos++
	x.addPC(c)
}

func (x *Exec) violation(tag string, m *Model) {
	x.violTag[tag]++
	if x.violTag[tag] > 3 {
		return
	}
	v := Violation{Tag: tag, Inputs: map[string]uint64{}, Path: x.Paths, Where: x.whereAmI()}
	memo := map[int]uint64{}
	for _, in := range x.inputs {
		val, _ := x.ts.Eval(in, m, memo)
		v.Inputs[in.Name] = val
		v.Order = append(v.Order, in.Name)
	}
	x.Violations = append(x.Violations, v)
}

// Concretize forks the path over the feasible values of t and returns this path's value.
// The candidate value is recorded in the decision so that re-execution is deterministic.
func (x *Exec) Concretize(t *Term, what string) int64 {
	ts := x.ts
	for {
		if t.IsConst() {
			return t.Int()
		}
		if x.pos < len(x.dec) {
			d := x.dec[x.pos]
			if d.kind != 'c' {
				panic(pathEnd{kind: "internal", msg: "replay divergence in Concretize (" + what + ")" + x.whereAmI()})
			}
			x.pos++
			k := ts.BV(d.val, t.W)
			cond := ts.Eq(t, k)
			if d.choice {
				x.addPC(cond)
			} else {
				x.addPC(ts.Not(cond))
			}
			if x.pos == len(x.dec) && d.altModel != nil {
				x.setModel(d.altModel)
			}
			if d.choice {
				return k.Int()
			}
			continue
		}
		if len(x.dec) >= x.cfg.MaxDecisions {
			panic(pathEnd{kind: "unwind", msg: fmt.Sprintf("decision bound %d reached (concretize %s)", x.cfg.MaxDecisions, what) + x.whereAmI()})
		}
		v, ok := x.eval(t)
		if !ok {
			r, m := x.check(ts.T)
			if r != Sat {
				panic(pathEnd{kind: "infeasible", msg: "concretize"})
			}
			x.setModel(m)
			v, _ = x.eval(t)
		}
		x.Decisions++
		k := ts.BV(v, t.W)
		cond := ts.Eq(t, k)
		d := decision{choice: true, kind: 'c', val: v}
		if !cond.IsTrue() {
			r, m := x.check(ts.Not(cond))
			switch r {
			case Sat:
				d.alt, d.altModel = true, m
			case Unknown:
				x.note("feasibility unknown in concretize " + what)
				x.unknownBranch = true
			}
		}
		x.dec = append(x.dec, d)
		x.pos++
		x.addPC(cond)
		return k.Int()
	}
}

// ---------------------------------------------------------------------------
// goroutines (cooperative: a goroutine runs until it blocks or ends)

func (x *Exec) spawn(fn Value, args []Value, origin string) *G {
	g := &G{id: len(x.gs), wake: make(chan struct{}, 1), fn: fn, args: args, origin: origin}
	x.gs = append(x.gs, g)
	return g
}

func (x *Exec) gMain(g *G) {
	defer x.wg.Done()
	defer func() {
		r := recover()
		if r == nil {
			return
		}
		if x.aborting {
			return
		}
		switch r := r.(type) {
		case pathEnd:
			if r.kind == "cm-blocked" && x.cm != nil && x.cm.rp != nil && g.id != 0 {
				// schedule replay: this thread is not meant to get further; the others go on
				g.done = true
				func() {
					defer func() {
						if r2 := recover(); r2 != nil {
							if pe2, ok := r2.(pathEnd); ok {
								x.finish(pe2)
							}
						}
					}()
					x.schedule(g)
				}()
				return
			}
			x.finish(r)
		case targetPanic:
			msg := "panic"
			if s, ok := x.panicText(r.v); ok {
				msg = s
			}
			kind := "panic"
			if g.id != 0 {
				kind = "panic-goroutine"
			}
			x.finish(pathEnd{kind: kind, msg: msg + r.where})
		default:
			x.finish(pathEnd{kind: "internal", msg: fmt.Sprintf("%v\n%s%s", r, debug.Stack(), x.whereAmI())})
		}
	}()
	<-g.wake
	if x.aborting {
		return
	}
	x.cur = g
	x.curFrame = nil
	x.call(nil, 0, g.fn, g.args)
	g.done = true
	if g.id == 0 {
		x.finish(pathEnd{kind: "done"})
		return
	}
	x.schedule(g)
}

func (x *Exec) panicText(v Value) (string, bool) {
	itf, ok := v.(Iface)
	if !ok || itf.T == nil {
		return "panic(nil)", true
	}
	switch vv := itf.V.(type) {
	case Str:
		if vv.Conc {
			return "panic: " + vv.C, true
		}
	case Ptr:
		// *errors.errorString and friends
		if vv != nil {
			if st, ok := (*vv).(Struct); ok && len(st) > 0 {
				if s, ok := st[0].(Str); ok && s.Conc {
					return "panic: " + s.C, true
				}
			}
		}
	case Struct:
		if len(vv) > 0 {
			if s, ok := vv[0].(Str); ok && s.Conc {
				return "panic: " + itf.T.String() + " " + s.C, true
			}
		}
	}
	return "panic: " + itf.T.String(), true
}

func (x *Exec) finish(pe pathEnd) {
	select {
	case x.pathDone <- pe:
	default:
	}
}

// schedule picks the next runnable goroutine; `from` is the goroutine giving up the processor.
func (x *Exec) schedule(from *G) {
	from.curFrame = x.curFrame
	for {
		var next *G
		for _, g := range x.gs {
			if g.done {
				continue
			}
			if g == from {
				if from.cond != nil && from.cond() {
					next = g
					break
				}
				continue
			}
			if !g.started || g.cond == nil || g.cond() {
				next = g
				break
			}
		}
		if next == nil {
			if x.fireTimer() {
				continue
			}
			var who []string
			for _, g := range x.gs {
				if !g.done {
					who = append(who, fmt.Sprintf("g%d(%s): %s", g.id, g.origin, g.what))
				}
			}
			panic(pathEnd{kind: "hang", msg: "all goroutines blocked: " + strings.Join(who, "; ")})
		}
		if next == from {
			from.cond = nil
			x.cur = from
			x.curFrame = from.curFrame
			return
		}
		next.cond = nil
		x.cur = next
		x.curFrame = next.curFrame
		if !next.started {
			next.started = true
			x.wg.Add(1)
			go x.gMain(next)
		}
		next.wake <- struct{}{}
		if from.done {
			return
		}
		<-from.wake
		if x.aborting {
			panic(pathEnd{kind: "abort"})
		}
		x.cur = from
		x.curFrame = from.curFrame
		if from.cond == nil || from.cond() {
			from.cond = nil
			return
		}
	}
}

// block parks the current goroutine until cond holds.
func (x *Exec) block(cond func() bool, what string) {
	if cond() {
		return
	}
	g := x.cur
	g.cond = cond
	g.what = what + x.whereAmI()
	x.schedule(g)
}

// yield lets every other runnable goroutine run until it blocks or ends.
func (x *Exec) yield() {
	g := x.cur
	ran := map[*G]bool{}
	for {
		var next *G
		for _, o := range x.gs {
			if o == g || o.done || ran[o] {
				continue
			}
			if !o.started || o.cond == nil || o.cond() {
				next = o
				break
			}
		}
		if next == nil {
			return
		}
		ran[next] = true
		// park g with a condition that is true once next has blocked or finished
		n := next
		first := true
		g.cond = func() bool {
			if first {
				return false
			}
			return true
		}
		g.what = "yield"
		_ = n
		g.curFrame = x.curFrame
		next.cond = nil
		x.cur = next
		x.curFrame = next.curFrame
		if !next.started {
			next.started = true
			x.wg.Add(1)
			go x.gMain(next)
		}
		first = false
		next.wake <- struct{}{}
		<-g.wake
		if x.aborting {
			panic(pathEnd{kind: "abort"})
		}
		g.cond = nil
		x.cur = g
		x.curFrame = g.curFrame
	}
}

func (x *Exec) fireTimer() bool {
	var best *timerObj
	for _, t := range x.timers {
		if !t.active {
			continue
		}
		if best == nil || t.dur < best.dur || (t.dur == best.dur && t.seq < best.seq) {
			best = t
		}
	}
	if best == nil {
		return false
	}
	best.active = false
	best.fired = true
	if best.ch != nil {
		if len(best.ch.buf) < best.ch.cap {
			best.ch.buf = append(best.ch.buf, x.nowValue())
		}
	}
	if best.fn != nil {
		x.spawn(best.fn, nil, "timer")
	}
	return true
}

// ---------------------------------------------------------------------------
// channels

func (x *Exec) chanSend(c *Chan, v Value) {
	if c == nil {
		x.block(func() bool { return false }, "send on nil channel")
	}
	if c.closed {
		x.targetPanicStr("send on closed channel")
	}
	if c.cap == 0 {
		// rendezvous: treat as a one-slot buffer that the sender waits to be drained
		x.block(func() bool { return len(c.buf) == 0 || c.closed }, "chan send (unbuffered)")
		c.buf = append(c.buf, v)
		x.block(func() bool { return len(c.buf) == 0 || c.closed }, "chan send (unbuffered, waiting for receiver)")
		return
	}
	x.block(func() bool { return len(c.buf) < c.cap || c.closed }, "chan send")
	if c.closed {
		x.targetPanicStr("send on closed channel")
	}
	c.buf = append(c.buf, v)
}

func (x *Exec) chanRecv(c *Chan, commaOk bool) Value {
	if c == nil {
		x.block(func() bool { return false }, "receive from nil channel")
	}
	x.block(func() bool { return len(c.buf) > 0 || c.closed }, "chan receive")
	var v Value
	ok := true
	if len(c.buf) > 0 {
		v = c.buf[0]
		c.buf = append([]Value{}, c.buf[1:]...)
	} else {
		v = x.zero(c.et)
		ok = false
	}
	if commaOk {
		return Tuple{v, x.ts.Bool(ok)}
	}
	return v
}

func (x *Exec) chanClose(c *Chan) {
	if c == nil {
		x.targetPanicStr("close of nil channel")
	}
	if c.closed {
		x.targetPanicStr("close of closed channel")
	}
	c.closed = true
}

func (x *Exec) selectOp(fr *frame, instr *ssa.Select) Value {
	type st struct {
		c    *Chan
		send Value
		recv bool
	}
	var states []st
	for _, s := range instr.States {
		c, _ := fr.get(s.Chan).(*Chan)
		e := st{c: c, recv: s.Dir == types.RecvOnly}
		if s.Send != nil {
			e.send = copyVal(fr.get(s.Send))
		}
		states = append(states, e)
	}
	ready := func() int {
		for i, s := range states {
			if s.c == nil {
				continue
			}
			if s.recv {
				if len(s.c.buf) > 0 || s.c.closed {
					return i
				}
			} else if s.c.closed || len(s.c.buf) < s.c.cap || (s.c.cap == 0 && len(s.c.buf) == 0) {
				return i
			}
		}
		return -1
	}
	chosen := ready()
	if chosen < 0 && instr.Blocking {
		x.block(func() bool { return ready() >= 0 }, "select")
		chosen = ready()
	}
	r := Tuple{x.ts.BV(uint64(int64(chosen)), 64), x.ts.F}
	recvOk := false
	var recvVal Value
	if chosen >= 0 {
		s := states[chosen]
		if s.recv {
			if len(s.c.buf) > 0 {
				recvVal = s.c.buf[0]
				s.c.buf = append([]Value{}, s.c.buf[1:]...)
				recvOk = true
			}
		} else {
			if s.c.closed {
				x.targetPanicStr("send on closed channel")
			}
			s.c.buf = append(s.c.buf, s.send)
		}
	}
	r[1] = x.ts.Bool(recvOk)
	for i, s := range instr.States {
		if s.Dir == types.RecvOnly {
			if i == chosen && recvOk {
				r = append(r, recvVal)
			} else {
				r = append(r, x.zero(s.Chan.Type().Underlying().(*types.Chan).Elem()))
			}
		}
	}
	return r
}

// ---------------------------------------------------------------------------
// exploration

// Report summarises one exploration.
type Report struct {
	Entry      string
	Paths      int
	PathKinds  map[string]int
	Violations []Violation
	Reached    map[string]int
	Inconcl    []string
	Decisions  int
	Seconds    float64
}

func (x *Exec) resetPath() {
	x.pc = x.pc[:0]
	x.setModel(&Model{Vals: map[string]uint64{}})
	x.pos = 0
	x.symN = map[string]int{}
	x.inputs = nil
	x.steps = 0
	x.hangAt = 0
	x.depth = 0
	x.gs = nil
	x.cur = nil
	x.curFrame = nil
	x.timers = nil
	x.timerSeq = 0
	x.locks = map[Ptr]*lockState{}
	x.wgs = map[Ptr]*int64{}
	if x.onces == nil {
		x.onces = map[Ptr]bool{}
	}
	if x.smaps == nil {
		x.smaps = map[Ptr]*Map{}
	}
	x.ptrAddr = map[Ptr]uint64{}
	x.addrPtr = map[uint64]Ptr{}
	x.ptrSeq = 0
	x.nowN = 0
	x.lastNow = [2]*Term{}
	x.unknownBranch = false
	x.bounds = nil
	x.ivMemo = nil
	x.pendingSigned = nil
	x.pcSet = map[int]bool{}
	x.allocMax = 0
	x.pathNotes = nil
	x.aborting = false
	x.wallMs = map[int]*Term{}
	x.provided = map[string]Value{}
	x.manualClock = nil
	x.clockSteps = nil
	x.randSeq = 0
	x.timerObjs = map[Ptr]*timerObj{}
	x.opaqueN = 0
}

// runPath executes the entry once following x.dec as the decision prefix.
func (x *Exec) runPath(entry *ssa.Function) pathEnd {
	x.resetPath()
	x.journalOn = true
	x.journal = x.journal[:0]
	x.pathDone = make(chan pathEnd, 1)
	g0 := x.spawn(entry, nil, "harness")
	g0.started = true
	x.cur = g0
	x.wg.Add(1)
	go x.gMain(g0)
	g0.wake <- struct{}{}
	pe := <-x.pathDone
	// stop every parked goroutine
	x.aborting = true
	for _, g := range x.gs {
		if g.started && !g.done {
			select {
			case g.wake <- struct{}{}:
			default:
			}
		}
	}
	x.wg.Wait()
	// undo all memory effects of this path
	for i := len(x.journal) - 1; i >= 0; i-- {
		x.journal[i]()
	}
	x.journal = x.journal[:0]
	x.journalOn = false
	return pe
}

// Explore runs entry over all feasible paths within the bounds.
func (x *Exec) Explore(entry *ssa.Function) *Report {
	t0 := time.Now()
	x.dec = nil
	for {
		if x.Paths >= x.cfg.MaxPaths {
			x.note(fmt.Sprintf("path bound %d reached", x.cfg.MaxPaths))
			break
		}
		pe := x.runPath(entry)
		x.Paths++
		x.PathKinds[pe.kind]++
		if len(x.dec) > x.MaxDepthDec {
			x.MaxDepthDec = len(x.dec)
		}
		if x.cfg.Trace {
			m := firstLine(pe.msg)
			if pe.kind == "unwind" || pe.kind == "unsupported" {
				m = pe.msg
			}
			fmt.Fprintf(os.Stderr, "path %d: %s %s (decisions %d, steps %d)\n", x.Paths, pe.kind, m, len(x.dec), x.steps)
		}
		switch pe.kind {
		case "done", "infeasible", "violation-stop":
			if pe.kind == "done" && len(x.Samples) < 5 {
				x.Samples = append(x.Samples, x.inputSample())
			}
		case "panic", "panic-goroutine":
			x.violation("uncaught "+firstLine(pe.msg), x.model)
			if n := len(x.Violations); n > 0 && x.Violations[n-1].Where == "" {
				x.Violations[n-1].Where = pe.msg
			}
		case "hang":
			x.violation("hang", x.model)
			if n := len(x.Violations); n > 0 {
				x.Violations[n-1].Where = pe.msg
			}
		case "deadline":
			x.note("deadline: " + pe.msg)
		default: // unsupported, unwind, internal
			x.note(pe.kind + ": " + pe.msg)
		}
		if x.unknownBranch {
			x.note("a solver answer was unknown on some path")
		}
		if pe.kind == "deadline" {
			break
		}
		// next prefix
		i := len(x.dec) - 1
		if x.pos < len(x.dec) {
			// the path ended before consuming its prefix (should not happen)
			i = x.pos - 1
		}
		for i >= 0 && !x.dec[i].alt {
			i--
		}
		if i < 0 {
			break
		}
		d := x.dec[i]
		k := d.kind
		if k != 'c' {
			k = 'b'
		}
		x.dec = append(x.dec[:i:i], decision{choice: !d.choice, altModel: d.altModel, kind: k, val: d.val})
	}
	return &Report{Entry: entry.String(), Paths: x.Paths, PathKinds: x.PathKinds, Violations: x.Violations,
		Reached: x.Reached, Inconcl: x.Inconcl, Decisions: x.Decisions, Seconds: time.Since(t0).Seconds()}
}

func firstLine(s string) string {
	if i := strings.IndexByte(s, '\n'); i >= 0 {
		return s[:i]
	}
	return s
}

func (x *Exec) inputSample() map[string]uint64 {
	out := map[string]uint64{}
	memo := map[int]uint64{}
	for _, in := range x.inputs {
		v, _ := x.ts.Eval(in, x.model, memo)
		out[in.Name] = v
	}
	return out
}

// SortedKeys is a helper for evidence output.
func SortedKeys(m map[string]bool) []string {
	var out []string
	for k := range m {
		out = append(out, k)
	}
	sort.Strings(out)
	return out
}
