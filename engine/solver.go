package engine

import (
	"bufio"
	"fmt"
	"io"
	"os"
	"os/exec"
	"strconv"
	"strings"
	"time"
)

// Result of a check-sat.
type Result int

const (
	Unsat Result = iota
	Sat
	Unknown
)

func (r Result) String() string { return [...]string{"unsat", "sat", "unknown"}[r] }

// Solver is one long-lived solver process fed through stdin.
type Solver struct {
	Name     string
	argv     []string
	cmd      *exec.Cmd
	in       io.WriteCloser
	out      *bufio.Reader
	defined  map[int]bool
	declared map[string]bool
	ndefs    int
	Queries  int
	NSat     int
	NUnsat   int
	NUnknown int
	Seconds  float64
	log      io.Writer
	oneshot  bool
	TimeoutS int
	Errors   []string
	// hybrid mode: quickMs > 0 gives the primary (incremental z3) only that long per query; what it
	// cannot decide in that time goes to the fallback (one-shot cvc5 int-blasting)
	quickMs   int
	fallback  *Solver
	Fallbacks int
}

// Solver command lines. cvc5int is the int-blasting route for division-heavy queries.
var SolverArgv = map[string][]string{
	"z3":      {"z3", "-in"},
	"z3new":   {"z3-new", "-in"},
	"cvc5":    {"cvc5", "--incremental", "--produce-models", "--lang", "smt2"},
	"cvc5int": {"cvc5", "--incremental", "--produce-models", "--lang", "smt2", "--solve-bv-as-int=sum"},
}

func NewSolver(name string, timeoutS int) (*Solver, error) {
	if name == "hybrid" {
		p, err := NewSolver("z3", timeoutS)
		if err != nil {
			return nil, err
		}
		p.Name = "hybrid"
		p.quickMs = 400
		p.send(fmt.Sprintf("(set-option :timeout %d)", p.quickMs))
		p.fallback, _ = NewSolver("cvc5int", timeoutS)
		return p, nil
	}
	argv, ok := SolverArgv[name]
	if !ok {
		return nil, fmt.Errorf("unknown solver %q", name)
	}
	s := &Solver{Name: name, argv: argv, TimeoutS: timeoutS}
	if name == "cvc5int" {
		// int-blasting loses its advantage in incremental mode (measured: 1.6 s one-shot vs unknown
		// after 60 s incremental on the same query): one fresh process per query
		s.oneshot = true
		return s, nil
	}
	if p := os.Getenv("GOSYM_SMTLOG"); p != "" {
		f, err := os.Create(p + "." + name + ".smt2")
		if err == nil {
			s.log = f
		}
	}
	if err := s.start(); err != nil {
		return nil, err
	}
	return s, nil
}

func (s *Solver) start() error {
	s.cmd = exec.Command(s.argv[0], s.argv[1:]...)
	var err error
	s.in, err = s.cmd.StdinPipe()
	if err != nil {
		return err
	}
	op, err := s.cmd.StdoutPipe()
	if err != nil {
		return err
	}
	s.cmd.Stderr = s.cmd.Stdout
	s.out = bufio.NewReaderSize(op, 1<<20)
	if err := s.cmd.Start(); err != nil {
		return err
	}
	s.defined = map[int]bool{}
	s.declared = map[string]bool{}
	s.ndefs = 0
	s.send("(set-option :print-success false)")
	if s.quickMs > 0 {
		s.send(fmt.Sprintf("(set-option :timeout %d)", s.quickMs))
	} else if strings.HasPrefix(s.Name, "z3") {
		s.send(fmt.Sprintf("(set-option :timeout %d)", s.TimeoutS*1000))
	} else {
		s.send(fmt.Sprintf("(set-option :tlimit-per %d)", s.TimeoutS*1000))
		s.send("(set-logic ALL)")
	}
	return nil
}

func (s *Solver) Close() {
	if s.oneshot {
		return
	}
	if s.cmd != nil {
		s.in.Close()
		done := make(chan struct{})
		go func() { s.cmd.Wait(); close(done) }()
		select {
		case <-done:
		case <-time.After(2 * time.Second):
			s.cmd.Process.Kill()
		}
		s.cmd = nil
	}
}

func (s *Solver) restart() {
	if s.cmd != nil {
		s.cmd.Process.Kill()
		s.cmd.Wait()
	}
	s.start()
}

func (s *Solver) send(line string) {
	if s.log != nil {
		fmt.Fprintln(s.log, line)
	}
	io.WriteString(s.in, line)
	io.WriteString(s.in, "\n")
}

// readSexp reads one balanced s-expression or atom line from the solver.
func (s *Solver) readSexp() (string, error) {
	var sb strings.Builder
	depth := 0
	started := false
	for {
		line, err := s.out.ReadString('\n')
		if err != nil && line == "" {
			return sb.String(), err
		}
		inBar := false
		for _, c := range line {
			switch {
			case c == '|':
				inBar = !inBar
			case inBar:
			case c == '(':
				depth++
			case c == ')':
				depth--
			}
		}
		if strings.TrimSpace(line) == "" && !started {
			continue
		}
		started = true
		sb.WriteString(line)
		if depth <= 0 {
			return sb.String(), nil
		}
	}
}

// Check asks whether the conjunction of conj is satisfiable. If wantModel and sat,
// values for the symbols (and Select applications) under conj are returned.
func (s *Solver) Check(conj []*Term, wantModel bool) (Result, *Model, error) {
	if s.fallback != nil {
		res, m, err := s.check1(conj, wantModel)
		if res != Unknown {
			return res, m, err
		}
		// undecided within the quick budget (or an error): ask the int-blasting back end
		s.NUnknown--
		s.Queries--
		s.Fallbacks++
		if err != nil && len(s.Errors) > 0 {
			s.Errors = s.Errors[:len(s.Errors)-1]
		}
		t0 := time.Now()
		res, m, err = s.fallback.Check(conj, wantModel)
		s.Seconds += time.Since(t0).Seconds()
		s.Queries++
		switch res {
		case Sat:
			s.NSat++
		case Unsat:
			s.NUnsat++
		default:
			s.NUnknown++
			s.Errors = append(s.Errors, s.fallback.Errors...)
			s.fallback.Errors = nil
		}
		return res, m, err
	}
	return s.check1(conj, wantModel)
}

func (s *Solver) check1(conj []*Term, wantModel bool) (Result, *Model, error) {
	t0 := time.Now()
	defer func() { s.Seconds += time.Since(t0).Seconds() }()
	if s.oneshot {
		return s.checkOneShot(conj, wantModel)
	}
	if s.ndefs > 200000 {
		s.restart()
	}
	decls, defs := collect(conj, s.defined, s.declared)
	for _, d := range decls {
		s.send(d)
	}
	for _, d := range defs {
		s.send(fmt.Sprintf("(define-fun t%d () %s %s)", d.ID, sortSMT(d.W), body(d)))
		s.ndefs++
	}
	s.send("(push 1)")
	for _, c := range conj {
		if c.W != 0 {
			panic("assert of non-bool")
		}
		s.send("(assert " + ref(c) + ")")
	}
	s.send("(check-sat)")
	s.Queries++
	ans, err := s.readSexp()
	if err != nil {
		s.Errors = append(s.Errors, "solver died: "+err.Error())
		s.restart()
		s.NUnknown++
		return Unknown, nil, fmt.Errorf("%s died: %v (%q)", s.Name, err, ans)
	}
	ans = strings.TrimSpace(ans)
	var res Result
	switch ans {
	case "sat":
		res = Sat
		s.NSat++
	case "unsat":
		res = Unsat
		s.NUnsat++
	case "unknown", "timeout":
		res = Unknown
		s.NUnknown++
	default:
		// (error ...) or anything else: inconclusive, and resynchronise by restarting.
		s.Errors = append(s.Errors, ans)
		s.restart()
		s.NUnknown++
		return Unknown, nil, fmt.Errorf("%s: unexpected answer %q", s.Name, ans)
	}
	var model *Model
	if res == Sat && wantModel {
		model = &Model{Vals: map[string]uint64{}}
		syms := Syms(conj)
		sels := Selects(conj)
		if len(syms) > 0 || len(sels) > 0 {
			var sb strings.Builder
			sb.WriteString("(get-value (")
			for _, y := range syms {
				sb.WriteString(symSMT(y.Name))
				sb.WriteString(" ")
			}
			for _, y := range sels {
				sb.WriteString(ref(y.Args[0]))
				sb.WriteString(" ")
				sb.WriteString(ref(y))
				sb.WriteString(" ")
			}
			sb.WriteString("))")
			s.send(sb.String())
			txt, err := s.readSexp()
			if err != nil || strings.Contains(txt, "(error") {
				s.Errors = append(s.Errors, "get-value: "+txt)
				s.restart()
				return Unknown, nil, fmt.Errorf("%s get-value: %v %q", s.Name, err, txt)
			}
			vals := parseValues(txt)
			if len(vals) != len(syms)+2*len(sels) {
				s.Errors = append(s.Errors, "get-value parse: "+txt)
				s.restart()
				return Unknown, nil, fmt.Errorf("%s get-value: parsed %d of %d", s.Name, len(vals), len(syms)+2*len(sels))
			}
			for i, y := range syms {
				model.Vals[y.Name] = vals[i]
			}
			for i, y := range sels {
				idx, v := vals[len(syms)+2*i], vals[len(syms)+2*i+1]
				if model.Sel == nil {
					model.Sel = map[string]map[uint64]uint64{}
				}
				if model.Sel[y.Name] == nil {
					model.Sel[y.Name] = map[uint64]uint64{}
				}
				model.Sel[y.Name][idx] = v
			}
		}
	}
	s.send("(pop 1)")
	return res, model, nil
}

// parseValues extracts the value of each pair in "((name val) (name val) ...)" in order.
func parseValues(txt string) []uint64 {
	var out []uint64
	// tokenise
	var toks []string
	i := 0
	for i < len(txt) {
		c := txt[i]
		switch {
		case c == '(' || c == ')':
			toks = append(toks, string(c))
			i++
		case c == ' ' || c == '\n' || c == '\t' || c == '\r':
			i++
		case c == '|':
			j := strings.IndexByte(txt[i+1:], '|')
			toks = append(toks, txt[i:i+j+2])
			i += j + 2
		default:
			j := i
			for j < len(txt) && !strings.ContainsRune("() \n\t\r", rune(txt[j])) {
				j++
			}
			toks = append(toks, txt[i:j])
			i = j
		}
	}
	// structure: ( ( key val ) ( key val ) ) where key may itself be a parenthesised term
	pos := 1
	skip := func() { // skip one s-expression
		if toks[pos] == "(" {
			d := 0
			for {
				if toks[pos] == "(" {
					d++
				} else if toks[pos] == ")" {
					d--
				}
				pos++
				if d == 0 {
					return
				}
			}
		}
		pos++
	}
	for pos < len(toks) && toks[pos] == "(" {
		pos++ // (
		skip()
		// value
		v := toks[pos]
		switch {
		case v == "true":
			out = append(out, 1)
			pos++
		case v == "false":
			out = append(out, 0)
			pos++
		case strings.HasPrefix(v, "#x"):
			n, _ := strconv.ParseUint(v[2:], 16, 64)
			out = append(out, n)
			pos++
		case strings.HasPrefix(v, "#b"):
			n, _ := strconv.ParseUint(v[2:], 2, 64)
			out = append(out, n)
			pos++
		case v == "(": // (_ bv123 32)
			if pos+2 < len(toks) && toks[pos+1] == "_" && strings.HasPrefix(toks[pos+2], "bv") {
				n, _ := strconv.ParseUint(toks[pos+2][2:], 10, 64)
				out = append(out, n)
			} else {
				out = append(out, 0)
			}
			skip()
		default:
			out = append(out, 0)
			pos++
		}
		pos++ // )
	}
	return out
}

// checkOneShot runs a fresh solver process on a self-contained script for this query.
func (s *Solver) checkOneShot(conj []*Term, wantModel bool) (Result, *Model, error) {
	var sb strings.Builder
	sb.WriteString("(set-logic ALL)\n")
	decls, defs := collect(conj, map[int]bool{}, map[string]bool{})
	for _, d := range decls {
		sb.WriteString(d + "\n")
	}
	for _, d := range defs {
		fmt.Fprintf(&sb, "(define-fun t%d () %s %s)\n", d.ID, sortSMT(d.W), body(d))
	}
	for _, c := range conj {
		sb.WriteString("(assert " + ref(c) + ")\n")
	}
	sb.WriteString("(check-sat)\n")
	syms := Syms(conj)
	sels := Selects(conj)
	if wantModel && (len(syms) > 0 || len(sels) > 0) {
		sb.WriteString("(get-value (")
		for _, y := range syms {
			sb.WriteString(symSMT(y.Name) + " ")
		}
		for _, y := range sels {
			sb.WriteString(ref(y.Args[0]) + " " + ref(y) + " ")
		}
		sb.WriteString("))\n")
	}
	f, err := os.CreateTemp("", "gosym-*.smt2")
	if err != nil {
		return Unknown, nil, err
	}
	defer os.Remove(f.Name())
	f.WriteString(sb.String())
	f.Close()
	if s.log != nil {
		fmt.Fprintln(s.log, sb.String())
	}
	argv := []string{"--produce-models", "--lang", "smt2", "--solve-bv-as-int=sum", fmt.Sprintf("--tlimit=%d", s.TimeoutS*1000), f.Name()}
	tq := time.Now()
	out, _ := exec.Command("cvc5", argv...).CombinedOutput()
	if p := os.Getenv("GOSYM_SMTLOG"); p != "" {
		os.WriteFile(fmt.Sprintf("%s.q%d.smt2", p, s.Queries), []byte(sb.String()+fmt.Sprintf("; %.2fs %s\n", time.Since(tq).Seconds(), firstLineOf(string(out)))), 0o644)
	}
	s.Queries++
	txt := string(out)
	first := strings.TrimSpace(txt)
	if i := strings.IndexByte(first, '\n'); i >= 0 {
		first = first[:i]
	}
	switch first {
	case "unsat":
		s.NUnsat++
		return Unsat, nil, nil
	case "sat":
		s.NSat++
	default:
		s.NUnknown++
		if first != "unknown" && first != "timeout" {
			s.Errors = append(s.Errors, first)
			return Unknown, nil, fmt.Errorf("%s: unexpected answer %q", s.Name, first)
		}
		return Unknown, nil, nil
	}
	model := &Model{Vals: map[string]uint64{}}
	if wantModel && (len(syms) > 0 || len(sels) > 0) {
		rest := txt[strings.Index(txt, "sat")+3:]
		if strings.Contains(rest, "(error") {
			s.Errors = append(s.Errors, "get-value: "+rest)
			return Unknown, nil, fmt.Errorf("%s get-value error", s.Name)
		}
		vals := parseValues(strings.TrimSpace(rest))
		if len(vals) != len(syms)+2*len(sels) {
			s.Errors = append(s.Errors, "get-value parse: "+rest)
			return Unknown, nil, fmt.Errorf("%s get-value: parsed %d of %d", s.Name, len(vals), len(syms)+2*len(sels))
		}
		for i, y := range syms {
			model.Vals[y.Name] = vals[i]
		}
		for i, y := range sels {
			idx, v := vals[len(syms)+2*i], vals[len(syms)+2*i+1]
			if model.Sel == nil {
				model.Sel = map[string]map[uint64]uint64{}
			}
			if model.Sel[y.Name] == nil {
				model.Sel[y.Name] = map[uint64]uint64{}
			}
			model.Sel[y.Name][idx] = v
		}
	}
	return Sat, model, nil
}

func firstLineOf(s string) string {
	s = strings.TrimSpace(s)
	if i := strings.IndexByte(s, '\n'); i >= 0 {
		return s[:i]
	}
	return s
}
