package engine

// Cheap pre-solver pruning: unsigned interval evaluation of terms under the symbol bounds that the
// path condition states directly (sym <= c, c <= sym, ...). Used only to decide a branch condition
// without a solver call when the interval answer is definite; anything doubtful goes to the solver.

type ival struct {
	lo, hi uint64
	ok     bool
}

func full(w int) ival { return ival{0, mask(w), true} }

// symBounds tracks [lo,hi] (unsigned) per symbol name as learnt from the path condition.
type symBounds map[string][2]uint64

// learn extracts bounds from one path-condition conjunct of a simple shape.
func (x *Exec) learn(c *Term) {
	if x.bounds == nil {
		x.bounds = symBounds{}
	}
	neg := false
	if c.Op == OpNot {
		neg = true
		c = c.Args[0]
	}
	if c.Op == OpAnd && !neg {
		x.learn(c.Args[0])
		x.learn(c.Args[1])
		return
	}
	if c.Op == OpOr && neg {
		x.learn(x.ts.Not(c.Args[0]))
		x.learn(x.ts.Not(c.Args[1]))
		return
	}
	switch c.Op {
	case OpULt, OpULe, OpSLt, OpSLe:
	default:
		return
	}
	a, b := c.Args[0], c.Args[1]
	strict := c.Op == OpULt || c.Op == OpSLt
	signed := c.Op == OpSLt || c.Op == OpSLe
	if neg {
		// not(a < b) == b <= a ; not(a <= b) == b < a
		a, b = b, a
		strict = !strict
	}
	w := a.W
	half := uint64(1) << uint(w-1)
	set := func(s *Term, lo, hi uint64) {
		cur, ok := x.bounds[s.Name]
		if !ok {
			cur = [2]uint64{0, mask(s.W)}
		}
		if lo > cur[0] {
			cur[0] = lo
		}
		if hi < cur[1] {
			cur[1] = hi
		}
		if old, had := x.bounds[s.Name]; !had || old != cur {
			x.ivMemo = nil // bounds tightened: cached ranges may be improved
		}
		x.bounds[s.Name] = cur
	}
	// sym (<|<=) const
	if a.Op == OpSym && b.IsConst() {
		k := b.C
		if signed && k >= half {
			return // negative bound: not representable as an unsigned interval here
		}
		if strict {
			if k == 0 {
				return
			}
			k--
		}
		if signed {
			// sym <=s k with k >= 0 says nothing about negative sym unless a lower bound exists
			if cur, ok := x.bounds[a.Name]; !ok || cur[1] >= half {
				// only usable if we already know sym is non-negative
				if !(ok && cur[1] < half) {
					x.pendingSigned = append(x.pendingSigned, c)
					return
				}
			}
		}
		set(a, 0, k)
		return
	}
	// const (<|<=) sym
	if b.Op == OpSym && a.IsConst() {
		k := a.C
		if signed && k >= half {
			return
		}
		if strict {
			k++
		}
		if signed {
			// k <=s sym with k >= 0: sym is in [k, 2^(w-1)-1]
			set(b, k, half-1)
			// re-try pending signed upper bounds
			p := x.pendingSigned
			x.pendingSigned = nil
			for _, q := range p {
				x.learn(q)
			}
			return
		}
		set(b, k, mask(w))
	}
}

func (x *Exec) rangeOf(t *Term, memo map[int]ival) ival {
	if t.Op == OpConst {
		return ival{t.C, t.C, true}
	}
	if r, ok := memo[t.ID]; ok {
		return r
	}
	w := t.W
	r := full(max(w, 1))
	if w == 0 {
		r = ival{0, 1, true}
	}
	m := mask(max(w, 1))
	switch t.Op {
	case OpSym:
		if b, ok := x.bounds[t.Name]; ok {
			r = ival{b[0], b[1], true}
		}
	case OpZExt:
		r = x.rangeOf(t.Args[0], memo)
	case OpSExt:
		a := x.rangeOf(t.Args[0], memo)
		if a.hi < uint64(1)<<uint(t.Args[0].W-1) {
			r = a
		}
	case OpExtract:
		a := x.rangeOf(t.Args[0], memo)
		if t.Lo == 0 && a.hi <= m {
			r = a
		}
	case OpAdd:
		a, b := x.rangeOf(t.Args[0], memo), x.rangeOf(t.Args[1], memo)
		if a.hi <= m-b.hi { // no wrap
			r = ival{a.lo + b.lo, a.hi + b.hi, true}
		} else if b.lo == b.hi && b.lo > m/2 && a.lo >= (m-b.lo+1) {
			// adding a "negative" constant without wrapping below zero: a - k
			k := m - b.lo + 1
			r = ival{a.lo - k, a.hi - k, true}
		}
	case OpSub:
		a, b := x.rangeOf(t.Args[0], memo), x.rangeOf(t.Args[1], memo)
		if a.lo >= b.hi {
			r = ival{a.lo - b.hi, a.hi - b.lo, true}
		}
	case OpMul:
		a, b := x.rangeOf(t.Args[0], memo), x.rangeOf(t.Args[1], memo)
		if a.hi == 0 || b.hi <= m/a.hi {
			r = ival{a.lo * b.lo, a.hi * b.hi, true}
		}
	case OpUDiv:
		a, b := x.rangeOf(t.Args[0], memo), x.rangeOf(t.Args[1], memo)
		if b.lo > 0 {
			r = ival{a.lo / b.hi, a.hi / b.lo, true}
		}
	case OpURem:
		a, b := x.rangeOf(t.Args[0], memo), x.rangeOf(t.Args[1], memo)
		if b.lo > 0 && b.lo == b.hi && a.lo/b.lo == a.hi/b.lo {
			// the quotient is the same over the whole range: the remainder is exact
			r = ival{a.lo % b.lo, a.hi % b.lo, true}
		} else if b.lo > 0 {
			hi := b.hi - 1
			if a.hi < hi {
				hi = a.hi
			}
			r = ival{0, hi, true}
			if a.hi < b.lo {
				r = a
			}
		}
	case OpSDiv:
		a, b := x.rangeOf(t.Args[0], memo), x.rangeOf(t.Args[1], memo)
		half := uint64(1) << uint(w-1)
		if a.hi < half && b.hi < half && b.lo > 0 {
			r = ival{a.lo / b.hi, a.hi / b.lo, true}
		}
	case OpSRem:
		a, b := x.rangeOf(t.Args[0], memo), x.rangeOf(t.Args[1], memo)
		half := uint64(1) << uint(w-1)
		if a.hi < half && b.hi < half && b.lo > 0 && b.lo == b.hi && a.lo/b.lo == a.hi/b.lo {
			r = ival{a.lo % b.lo, a.hi % b.lo, true}
		} else if a.hi < half && b.hi < half && b.lo > 0 {
			hi := b.hi - 1
			if a.hi < hi {
				hi = a.hi
			}
			r = ival{0, hi, true}
		}
	case OpBAnd:
		a, b := x.rangeOf(t.Args[0], memo), x.rangeOf(t.Args[1], memo)
		hi := a.hi
		if b.hi < hi {
			hi = b.hi
		}
		r = ival{0, hi, true}
	case OpLShr:
		a, b := x.rangeOf(t.Args[0], memo), x.rangeOf(t.Args[1], memo)
		if b.lo == b.hi && b.lo < 64 {
			r = ival{a.lo >> b.lo, a.hi >> b.lo, true}
		} else {
			r = ival{0, a.hi, true}
		}
	case OpAShr:
		a, b := x.rangeOf(t.Args[0], memo), x.rangeOf(t.Args[1], memo)
		half := uint64(1) << uint(w-1)
		if a.hi < half {
			if b.lo == b.hi && b.lo < 64 {
				r = ival{a.lo >> b.lo, a.hi >> b.lo, true}
			} else {
				r = ival{0, a.hi, true}
			}
		}
	case OpShl:
		a, b := x.rangeOf(t.Args[0], memo), x.rangeOf(t.Args[1], memo)
		if b.lo == b.hi && b.lo < 64 && a.hi <= m>>b.lo {
			r = ival{a.lo << b.lo, a.hi << b.lo, true}
		}
	case OpIte:
		a, b := x.rangeOf(t.Args[1], memo), x.rangeOf(t.Args[2], memo)
		c := x.decide(t.Args[0], memo)
		switch c {
		case 1:
			r = a
		case 0:
			r = b
		default:
			lo, hi := a.lo, a.hi
			if b.lo < lo {
				lo = b.lo
			}
			if b.hi > hi {
				hi = b.hi
			}
			r = ival{lo, hi, true}
		}
	case OpConcat:
		a, b := x.rangeOf(t.Args[0], memo), x.rangeOf(t.Args[1], memo)
		if a.lo == a.hi {
			sh := uint(t.Args[1].W)
			r = ival{a.lo<<sh | b.lo, a.lo<<sh | b.hi, true}
		}
	default:
		if w == 0 {
			switch x.decide(t, memo) {
			case 1:
				r = ival{1, 1, true}
			case 0:
				r = ival{0, 0, true}
			}
		}
	}
	memo[t.ID] = r
	return r
}

// decide returns 1 (certainly true), 0 (certainly false) or -1 (unknown) for a Bool term.
func (x *Exec) decide(c *Term, memo map[int]ival) int {
	if c.IsConst() {
		return int(c.C)
	}
	switch c.Op {
	case OpNot:
		switch x.decide(c.Args[0], memo) {
		case 1:
			return 0
		case 0:
			return 1
		}
	case OpAnd:
		a, b := x.decide(c.Args[0], memo), x.decide(c.Args[1], memo)
		if a == 0 || b == 0 {
			return 0
		}
		if a == 1 && b == 1 {
			return 1
		}
	case OpOr:
		a, b := x.decide(c.Args[0], memo), x.decide(c.Args[1], memo)
		if a == 1 || b == 1 {
			return 1
		}
		if a == 0 && b == 0 {
			return 0
		}
	case OpULt, OpULe:
		a, b := x.rangeOf(c.Args[0], memo), x.rangeOf(c.Args[1], memo)
		if c.Op == OpULt {
			if a.hi < b.lo {
				return 1
			}
			if a.lo >= b.hi {
				return 0
			}
		} else {
			if a.hi <= b.lo {
				return 1
			}
			if a.lo > b.hi {
				return 0
			}
		}
	case OpSLt, OpSLe:
		a, b := x.rangeOf(c.Args[0], memo), x.rangeOf(c.Args[1], memo)
		half := uint64(1) << uint(c.Args[0].W-1)
		if a.hi < half && b.hi < half { // both non-negative: same as unsigned
			if c.Op == OpSLt {
				if a.hi < b.lo {
					return 1
				}
				if a.lo >= b.hi {
					return 0
				}
			} else {
				if a.hi <= b.lo {
					return 1
				}
				if a.lo > b.hi {
					return 0
				}
			}
		} else if a.hi < half && b.lo >= half { // a >= 0 > b
			return 0
		} else if a.lo >= half && b.hi < half { // a < 0 <= b
			return 1
		}
	case OpEq:
		if c.Args[0].W > 0 {
			a, b := x.rangeOf(c.Args[0], memo), x.rangeOf(c.Args[1], memo)
			if a.hi < b.lo || b.hi < a.lo {
				return 0
			}
			if a.lo == a.hi && b.lo == b.hi && a.lo == b.lo {
				return 1
			}
		}
	}
	return -1
}

// fold replaces a term whose value the stated bounds pin to one point by that constant. Sound on
// this path because the path condition (from which the bounds were learnt) only grows.
func (x *Exec) fold(t *Term) *Term {
	if x.ivMemo == nil {
		x.ivMemo = map[int]ival{}
	}
	if t.W == 0 {
		switch x.decide(t, x.ivMemo) {
		case 1:
			x.Folded++
			return x.ts.T
		case 0:
			x.Folded++
			return x.ts.F
		}
		return t
	}
	r := x.rangeOf(t, x.ivMemo)
	if r.ok && r.lo == r.hi {
		x.Folded++
		return x.ts.BV(r.lo, t.W)
	}
	return t
}
