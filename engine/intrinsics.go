package engine

import (
	"fmt"
	"go/types"
	"regexp"
	"strconv"
	"strings"

	"golang.org/x/tools/go/ssa"
)

type intrinsic func(fr *frame, args []Value) Value

var intrinsics = map[string]intrinsic{}

const libPkg = "ergo.services/ergo/lib."

func init() {
	reg := func(name string, f intrinsic) { intrinsics[name] = f }

	// ---- harness runtime (lib.Verif*) -------------------------------------------------
	symOf := func(w int, signedBits bool) intrinsic {
		return func(fr *frame, args []Value) Value {
			return fr.x.Fresh(concStr(fr.x, args[0]), w)
		}
	}
	reg(libPkg+"VerifUint64", symOf(64, false))
	reg(libPkg+"VerifInt64", symOf(64, true))
	reg(libPkg+"VerifInt", symOf(64, true))
	reg(libPkg+"VerifUint32", symOf(32, false))
	reg(libPkg+"VerifInt32", symOf(32, true))
	reg(libPkg+"VerifUint16", symOf(16, false))
	reg(libPkg+"VerifInt16", symOf(16, true))
	reg(libPkg+"VerifByte", symOf(8, false))
	reg(libPkg+"VerifBool", symOf(0, false))
	reg(libPkg+"VerifChoose", func(fr *frame, args []Value) Value {
		x := fr.x
		n := args[1].(*Term)
		t := x.Fresh(concStr(x, args[0]), 64)
		x.Assume(x.ts.Cmp(OpULt, t, n), "choose in range")
		return t
	})
	reg(libPkg+"VerifPick", func(fr *frame, args []Value) Value {
		// a symbolic choice in [0,n) that is immediately concretised (one path per value)
		x := fr.x
		n := args[1].(*Term)
		t := x.Fresh(concStr(x, args[0]), 64)
		x.Assume(x.ts.Cmp(OpULt, t, n), "pick in range")
		return x.ts.BV(uint64(x.Concretize(t, "pick")), 64)
	})
	reg(libPkg+"VerifShard", func(fr *frame, args []Value) Value {
		x := fr.x
		n := args[1].(*Term).Int()
		s := int64(x.cfg.Shard)
		if v, ok := x.cfg.Params["shard:"+concStr(x, args[0])]; ok {
			s = v
		}
		if n > 0 {
			s = s % n
		}
		return x.ts.BV(uint64(s), 64)
	})
	reg(libPkg+"VerifParam", func(fr *frame, args []Value) Value {
		x := fr.x
		if v, ok := x.cfg.Params[concStr(x, args[0])]; ok {
			return x.ts.BV(uint64(v), 64)
		}
		return args[1]
	})
	reg(libPkg+"VerifBytes", func(fr *frame, args []Value) Value {
		x := fr.x
		name := concStr(x, args[0])
		n := x.concreteInt(args[1].(*Term), "VerifBytes length")
		s := make([]Value, n)
		for i := range s {
			s[i] = x.Fresh(name, 8)
		}
		return Slice{S: s}
	})
	reg(libPkg+"VerifString", func(fr *frame, args []Value) Value {
		x := fr.x
		name := concStr(x, args[0])
		n := x.concreteInt(args[1].(*Term), "VerifString length")
		b := make([]*Term, n)
		for i := range b {
			b[i] = x.Fresh(name, 8)
		}
		return x.normStr(b)
	})
	reg(libPkg+"VerifAssume", func(fr *frame, args []Value) Value {
		fr.x.Assume(args[0].(*Term), posOf(fr))
		return nil
	})
	reg(libPkg+"VerifAssert", func(fr *frame, args []Value) Value {
		x := fr.x
		if x.cm.active() {
			c := args[0].(*Term)
			if !c.IsConst() {
				x.unsupported("concurrency mode: symbolic assertion")
			}
			if c.C == 0 {
				x.cm.fail(concStr(x, args[1]))
			}
			return nil
		}
		x.Assert(args[0].(*Term), concStr(x, args[1]))
		return nil
	})
	reg(libPkg+"VerifReach", func(fr *frame, args []Value) Value {
		fr.x.Reached[concStr(fr.x, args[0])]++
		return nil
	})
	reg(libPkg+"VerifYield", func(fr *frame, args []Value) Value {
		fr.x.yield()
		return nil
	})
	reg(libPkg+"VerifSymbolic", func(fr *frame, args []Value) Value { return fr.x.ts.T })
	reg(libPkg+"VerifAllocMax", func(fr *frame, args []Value) Value {
		return fr.x.ts.BV(uint64(fr.x.allocMax), 64)
	})
	reg(libPkg+"VerifAllocReset", func(fr *frame, args []Value) Value {
		fr.x.allocMax = 0
		return nil
	})
	// VerifStepBound(n): from here on the path must end within n executed SSA instructions; running
	// past that is a "hang" candidate (confirmed or dropped by the native replay, which waits 60 s).
	reg(libPkg+"VerifStepBound", func(fr *frame, args []Value) Value {
		n := int(fr.x.concreteInt(args[0].(*Term), "VerifStepBound"))
		if n <= 0 {
			fr.x.hangAt = 0
		} else {
			fr.x.hangAt = fr.x.steps + n
		}
		return nil
	})
	reg(libPkg+"VerifFail", func(fr *frame, args []Value) Value {
		fr.x.Assert(fr.x.ts.F, concStr(fr.x, args[0]))
		return nil
	})
	reg(libPkg+"VerifStop", func(fr *frame, args []Value) Value {
		panic(pathEnd{kind: "done"})
	})
	reg(libPkg+"VerifIte", func(fr *frame, args []Value) Value {
		return fr.x.ts.Ite(args[0].(*Term), args[1].(*Term), args[2].(*Term))
	})
	reg(libPkg+"VerifClockAdvance", func(fr *frame, args []Value) Value {
		x := fr.x
		if x.manualClock == nil {
			x.manualClock = x.ts.BV(1_700_000_000_000, 64)
		}
		x.manualClock = x.ts.Bin(OpAdd, x.manualClock, args[0].(*Term))
		return nil
	})
	// VerifClockSteps(ms...): from now on every time.Now() first moves the manual clock forward by one
	// of the given amounts (one path per choice): a small-scope clock that can stand still, creep or
	// jump between any two reads, with concrete instants (no symbolic calendar arithmetic).
	reg(libPkg+"VerifClockSteps", func(fr *frame, args []Value) Value {
		x := fr.x
		if x.manualClock == nil {
			x.manualClock = x.ts.BV(1_700_000_000_000, 64)
		}
		x.clockSteps = nil
		for _, v := range args[0].(Slice).S {
			x.clockSteps = append(x.clockSteps, x.concreteInt(v.(*Term), "VerifClockSteps"))
		}
		return nil
	})
	reg("(time.Time).UnixMilli", func(fr *frame, args []Value) Value {
		t := args[0].(Struct)
		if w, ok := t[0].(*Term); ok {
			if ms, ok := fr.x.wallMs[w.ID]; ok {
				return ms
			}
		}
		return fallthroughVal{}
	})
	reg(libPkg+"VerifProvide", func(fr *frame, args []Value) Value {
		fr.x.provided[concStr(fr.x, args[0])] = args[1]
		return nil
	})
	reg("(*net.ListenConfig).Listen", func(fr *frame, args []Value) Value {
		l, ok := fr.x.provided["net.Listener"]
		if !ok {
			fr.x.unsupported("net.Listen without a provided listener (lib.VerifProvide)")
		}
		return Tuple{l, Iface{}}
	})
	reg("net.JoinHostPort", func(fr *frame, args []Value) Value {
		return fr.x.mkStr(concStr(fr.x, args[0]) + ":" + concStr(fr.x, args[1]))
	})
	reg(libPkg+"VerifTimersArmed", func(fr *frame, args []Value) Value {
		n := 0
		for _, t := range fr.x.timers {
			if t.active {
				n++
			}
		}
		return fr.x.ts.BV(uint64(n), 64)
	})
	reg(libPkg+"VerifFireTimers", func(fr *frame, args []Value) Value {
		n := 0
		for fr.x.fireTimer() {
			n++
		}
		return fr.x.ts.BV(uint64(n), 64)
	})

	// ---- sync/atomic ------------------------------------------------------------------
	for _, ty := range []string{"Int32", "Int64", "Uint32", "Uint64", "Uintptr", "Pointer"} {
		ty := ty
		reg("sync/atomic.Load"+ty, func(fr *frame, args []Value) Value {
			if fr.x.cm.active() {
				p := fr.x.nonNil(args[0])
				fr.x.cm.markObserved(p)
				fr.x.cm.markShared(p)
				return fr.x.cm.sharedRead(p, "atomic.Load")
			}
			return fr.x.loadFrom(args[0])
		})
		reg("sync/atomic.Store"+ty, func(fr *frame, args []Value) Value {
			if fr.x.cm.active() {
				p := fr.x.nonNil(args[0])
				fr.x.cm.markShared(p)
				fr.x.cm.sharedWrite(p, args[1], "atomic.Store")
				return nil
			}
			fr.x.storeTo(args[0], args[1])
			return nil
		})
		reg("sync/atomic.Swap"+ty, func(fr *frame, args []Value) Value {
			if fr.x.cm.active() {
				p := fr.x.nonNil(args[0])
				fr.x.cm.markObserved(p)
				fr.x.cm.markShared(p)
				return fr.x.cm.sharedRMW(p, "atomic.Swap", func(Value) (Value, bool) { return args[1], true })
			}
			old := fr.x.loadFrom(args[0])
			fr.x.storeTo(args[0], args[1])
			return old
		})
		reg("sync/atomic.CompareAndSwap"+ty, func(fr *frame, args []Value) Value {
			x := fr.x
			if x.cm.active() {
				p := x.nonNil(args[0])
				x.cm.markObserved(p)
				x.cm.markShared(p)
				return x.ts.Bool(x.cm.sharedCAS(p, args[1], args[2], "atomic.CAS"))
			}
			cur := x.loadFrom(args[0])
			eq := x.equal(nil, cur, args[1])
			if x.Branch(eq) {
				x.storeTo(args[0], args[2])
				return x.ts.T
			}
			return x.ts.F
		})
		if ty != "Pointer" {
			reg("sync/atomic.Add"+ty, func(fr *frame, args []Value) Value {
				x := fr.x
				if x.cm.active() {
					p := x.nonNil(args[0])
					if !x.cm.fObserved[x.cm.cellOf(p)] {
						// a counter nobody reads (statistics): no event, the result is not meaningful
						n := x.ts.Bin(OpAdd, (*p).(*Term), args[1].(*Term))
						x.store(p, n)
						x.cm.blindAdds[x.cm.cellOf(p)]++
						return n
					}
					x.cm.markShared(p)
					old := x.cm.sharedRMW(p, "atomic.Add", func(o Value) (Value, bool) { return x.ts.Bin(OpAdd, o.(*Term), args[1].(*Term)), true })
					return x.ts.Bin(OpAdd, old.(*Term), args[1].(*Term))
				}
				n := x.ts.Bin(OpAdd, x.loadFrom(args[0]).(*Term), args[1].(*Term))
				x.storeTo(args[0], n)
				return n
			})
			reg("sync/atomic.And"+ty, func(fr *frame, args []Value) Value {
				x := fr.x
				old := x.loadFrom(args[0]).(*Term)
				x.storeTo(args[0], x.ts.Bin(OpBAnd, old, args[1].(*Term)))
				return old
			})
			reg("sync/atomic.Or"+ty, func(fr *frame, args []Value) Value {
				x := fr.x
				old := x.loadFrom(args[0]).(*Term)
				x.storeTo(args[0], x.ts.Bin(OpBOr, old, args[1].(*Term)))
				return old
			})
		}
	}
	// atomic.Value: the `v any` field is a plain slot
	reg("(*sync/atomic.Value).Load", func(fr *frame, args []Value) Value {
		p := args[0].(Ptr)
		return copyVal((*p).(Struct)[0])
	})
	reg("(*sync/atomic.Value).Store", func(fr *frame, args []Value) Value {
		p := args[0].(Ptr)
		fr.x.store(&(*p).(Struct)[0], args[1])
		return nil
	})

	// ---- sync.Mutex / RWMutex / WaitGroup / Once / Pool / Map ------------------------------
	reg("(*sync.Mutex).Lock", func(fr *frame, args []Value) Value { fr.x.lock(args[0].(Ptr), true, false); return nil })
	reg("(*sync.Mutex).TryLock", func(fr *frame, args []Value) Value { return fr.x.ts.Bool(fr.x.lock(args[0].(Ptr), true, true)) })
	reg("(*sync.Mutex).Unlock", func(fr *frame, args []Value) Value { fr.x.unlock(args[0].(Ptr), true); return nil })
	reg("(*sync.RWMutex).Lock", func(fr *frame, args []Value) Value { fr.x.lock(args[0].(Ptr), true, false); return nil })
	reg("(*sync.RWMutex).TryLock", func(fr *frame, args []Value) Value { return fr.x.ts.Bool(fr.x.lock(args[0].(Ptr), true, true)) })
	reg("(*sync.RWMutex).Unlock", func(fr *frame, args []Value) Value { fr.x.unlock(args[0].(Ptr), true); return nil })
	reg("(*sync.RWMutex).RLock", func(fr *frame, args []Value) Value { fr.x.lock(args[0].(Ptr), false, false); return nil })
	reg("(*sync.RWMutex).TryRLock", func(fr *frame, args []Value) Value { return fr.x.ts.Bool(fr.x.lock(args[0].(Ptr), false, true)) })
	reg("(*sync.RWMutex).RUnlock", func(fr *frame, args []Value) Value { fr.x.unlock(args[0].(Ptr), false); return nil })

	reg("(*sync.WaitGroup).Add", func(fr *frame, args []Value) Value {
		x := fr.x
		c := x.wgCounter(args[0].(Ptr))
		*c += x.concreteInt(args[1].(*Term), "WaitGroup.Add")
		if *c < 0 {
			x.targetPanicStr("sync: negative WaitGroup counter")
		}
		return nil
	})
	reg("(*sync.WaitGroup).Done", func(fr *frame, args []Value) Value {
		x := fr.x
		c := x.wgCounter(args[0].(Ptr))
		*c--
		if *c < 0 {
			x.targetPanicStr("sync: negative WaitGroup counter")
		}
		return nil
	})
	reg("(*sync.WaitGroup).Wait", func(fr *frame, args []Value) Value {
		x := fr.x
		c := x.wgCounter(args[0].(Ptr))
		x.block(func() bool { return *c == 0 }, "WaitGroup.Wait")
		return nil
	})
	reg("(*sync.Once).Do", func(fr *frame, args []Value) Value {
		x := fr.x
		p := args[0].(Ptr)
		if x.onces[p] {
			return nil
		}
		x.onces[p] = true
		if x.journalOn {
			x.journal = append(x.journal, func() { delete(x.onces, p) })
		}
		x.call(fr, 0, args[1], nil)
		return nil
	})
	reg("(*sync.Pool).Get", func(fr *frame, args []Value) Value {
		x := fr.x
		p := args[0].(Ptr)
		st := (*p).(Struct)
		newf := st[len(st)-1]
		if isNilFunc(newf) {
			return Iface{}
		}
		return x.call(fr, 0, newf, nil)
	})
	reg("(*sync.Pool).Put", func(fr *frame, args []Value) Value {
		// "havoc" mode: an object given back to a pool may be taken and overwritten by anyone;
		// for *lib.Buffer the first bytes of the pooled array become arbitrary.
		x := fr.x
		if x.cfg.Params["havoc"] != 1 {
			return nil
		}
		itf, ok := args[1].(Iface)
		if !ok || itf.T == nil || !strings.HasSuffix(itf.T.String(), "lib.Buffer") {
			return nil
		}
		p, ok := itf.V.(Ptr)
		if !ok || p == nil {
			return nil
		}
		st, ok := (*p).(Struct)
		if !ok || len(st) < 2 {
			return nil
		}
		orig, ok := st[1].(Slice)
		if !ok {
			return nil
		}
		full := orig.S[:cap(orig.S)]
		for i := 0; i < len(full) && i < 64; i++ {
			x.store(&full[i], x.Fresh("havoc", 8))
		}
		return nil
	})

	reg("(*sync.Map).Load", func(fr *frame, args []Value) Value {
		x := fr.x
		return x.smapOp(args[0].(Ptr), true, func(m *Map) Value {
			if i := x.mapFind(m, args[1]); i >= 0 {
				return Tuple{m.ents[i].v, x.ts.T}
			}
			return Tuple{Iface{}, x.ts.F}
		})
	})
	reg("(*sync.Map).Store", func(fr *frame, args []Value) Value {
		x := fr.x
		return x.smapOp(args[0].(Ptr), false, func(m *Map) Value {
			x.mapSet(m, args[1], args[2])
			return nil
		})
	})
	reg("(*sync.Map).LoadOrStore", func(fr *frame, args []Value) Value {
		x := fr.x
		return x.smapOp(args[0].(Ptr), false, func(m *Map) Value {
			if i := x.mapFind(m, args[1]); i >= 0 {
				return Tuple{m.ents[i].v, x.ts.T}
			}
			x.mapSet(m, args[1], args[2])
			return Tuple{args[2], x.ts.F}
		})
	})
	reg("(*sync.Map).LoadAndDelete", func(fr *frame, args []Value) Value {
		x := fr.x
		return x.smapOp(args[0].(Ptr), false, func(m *Map) Value {
			if i := x.mapFind(m, args[1]); i >= 0 {
				v := m.ents[i].v
				x.mapDelete(m, args[1])
				return Tuple{v, x.ts.T}
			}
			return Tuple{Iface{}, x.ts.F}
		})
	})
	reg("(*sync.Map).Delete", func(fr *frame, args []Value) Value {
		x := fr.x
		return x.smapOp(args[0].(Ptr), false, func(m *Map) Value {
			x.mapDelete(m, args[1])
			return nil
		})
	})
	reg("(*sync.Map).Swap", func(fr *frame, args []Value) Value {
		x := fr.x
		return x.smapOp(args[0].(Ptr), false, func(m *Map) Value {
			if i := x.mapFind(m, args[1]); i >= 0 {
				old := m.ents[i].v
				x.mapSet(m, args[1], args[2])
				return Tuple{old, x.ts.T}
			}
			x.mapSet(m, args[1], args[2])
			return Tuple{Iface{}, x.ts.F}
		})
	})
	reg("(*sync.Map).CompareAndSwap", func(fr *frame, args []Value) Value {
		x := fr.x
		return x.smapOp(args[0].(Ptr), false, func(m *Map) Value {
			if i := x.mapFind(m, args[1]); i >= 0 {
				if x.Branch(x.equal(nil, m.ents[i].v, args[2])) {
					x.mapSet(m, args[1], args[3])
					return x.ts.T
				}
			}
			return x.ts.F
		})
	})
	reg("(*sync.Map).CompareAndDelete", func(fr *frame, args []Value) Value {
		x := fr.x
		return x.smapOp(args[0].(Ptr), false, func(m *Map) Value {
			if i := x.mapFind(m, args[1]); i >= 0 {
				if x.Branch(x.equal(nil, m.ents[i].v, args[2])) {
					x.mapDelete(m, args[1])
					return x.ts.T
				}
			}
			return x.ts.F
		})
	})
	reg("(*sync.Map).Range", func(fr *frame, args []Value) Value {
		x := fr.x
		// a guarded map in concurrency mode: iterate over the state read at this point
		x.smapOp(args[0].(Ptr), true, func(m *Map) Value { return nil })
		m := x.smap(args[0].(Ptr))
		ents := m.ents
		for _, e := range ents {
			live := false
			for _, c := range m.ents {
				if c == e {
					live = true
				}
			}
			if !live {
				continue
			}
			r := x.call(fr, 0, args[1], []Value{e.k, e.v}).(*Term)
			if !x.Branch(r) {
				break
			}
		}
		return nil
	})
	reg("(*sync.Map).Clear", func(fr *frame, args []Value) Value {
		x := fr.x
		m := x.smap(args[0].(Ptr))
		if x.journalOn {
			old := m.ents
			x.journal = append(x.journal, func() { m.ents = old })
		}
		m.ents = nil
		return nil
	})

	// ---- time ----------------------------------------------------------------------------
	reg("time.Now", func(fr *frame, args []Value) Value { return fr.x.nowValue() })
	// time.now (runtime-provided wall clock) is used by LoadLocationFromTZData only to prime the
	// location's lookup cache: a fixed instant (the epoch) keeps that cache out of the way
	reg("time.now", func(fr *frame, args []Value) Value {
		return Tuple{fr.x.ts.BV(0, 64), fr.x.ts.BV(0, 32), fr.x.ts.BV(0, 64)}
	})
	reg("time.Since", func(fr *frame, args []Value) Value { return fr.x.Fresh("since", 64) })
	reg("time.Sleep", func(fr *frame, args []Value) Value { return nil })
	reg("time.AfterFunc", func(fr *frame, args []Value) Value {
		x := fr.x
		t := x.newTimer(args[0].(*Term))
		t.fn = args[1]
		return x.timerValue(fr, t, "time.Timer")
	})
	reg("time.NewTimer", func(fr *frame, args []Value) Value {
		x := fr.x
		t := x.newTimer(args[0].(*Term))
		x.chanSeq++
		t.ch = &Chan{cap: 1, id: x.chanSeq, timer: t, et: x.timeType()}
		return x.timerValue(fr, t, "time.Timer")
	})
	reg("time.After", func(fr *frame, args []Value) Value {
		x := fr.x
		t := x.newTimer(args[0].(*Term))
		x.chanSeq++
		t.ch = &Chan{cap: 1, id: x.chanSeq, timer: t, et: x.timeType()}
		return t.ch
	})
	reg("(*time.Timer).Stop", func(fr *frame, args []Value) Value {
		x := fr.x
		t := x.timerOf(args[0].(Ptr))
		was := t != nil && t.active
		if t != nil {
			t.active = false
		}
		return x.ts.Bool(was)
	})
	reg("(*time.Timer).Reset", func(fr *frame, args []Value) Value {
		x := fr.x
		t := x.timerOf(args[0].(Ptr))
		was := t != nil && t.active
		if t != nil {
			t.active = true
			t.fired = false
			t.dur = x.durOf(args[1].(*Term))
		}
		return x.ts.Bool(was)
	})

	// ---- fmt / errors / runtime / os ------------------------------------------------------
	fmtS := func(fr *frame, args []Value) Value { return fr.x.sprintf(args[0], args[1]) }
	reg("fmt.Sprintf", fmtS)
	reg("fmt.Errorf", func(fr *frame, args []Value) Value { return fr.x.errorf(args[0], args[1]) })
	reg("fmt.Sprint", func(fr *frame, args []Value) Value { return fr.x.sprintf(fr.x.mkStr("%v"), args[0]) })
	reg("fmt.Sprintln", func(fr *frame, args []Value) Value { return fr.x.sprintf(fr.x.mkStr("%v\n"), args[0]) })
	retNil2 := func(fr *frame, args []Value) Value { return Tuple{fr.x.ts.BV(0, 64), Iface{}} }
	reg("fmt.Printf", retNil2)
	reg("fmt.Println", retNil2)
	reg("fmt.Print", retNil2)
	reg("fmt.Fprintf", retNil2)
	reg("fmt.Fprintln", retNil2)
	reg("fmt.Fprint", retNil2)
	reg("errors.Is", func(fr *frame, args []Value) Value { return fr.x.errorsIs(fr, args[0].(Iface), args[1].(Iface)) })

	reg("runtime.Caller", func(fr *frame, args []Value) Value {
		x := fr.x
		return Tuple{x.ts.BV(0, 64), x.mkStr("?"), x.ts.BV(0, 64), x.ts.F}
	})
	reg("runtime.Callers", func(fr *frame, args []Value) Value { return fr.x.ts.BV(0, 64) })
	reg("runtime.FuncForPC", func(fr *frame, args []Value) Value { return Ptr(nil) })
	reg("(*runtime.Func).Name", func(fr *frame, args []Value) Value { return fr.x.mkStr("?") })
	reg("runtime.Gosched", func(fr *frame, args []Value) Value { return nil })
	reg("runtime.GC", func(fr *frame, args []Value) Value { return nil })
	reg("runtime.NumCPU", func(fr *frame, args []Value) Value { return fr.x.ts.BV(4, 64) })
	reg("runtime.GOMAXPROCS", func(fr *frame, args []Value) Value { return fr.x.ts.BV(4, 64) })
	reg("runtime.NumGoroutine", func(fr *frame, args []Value) Value { return fr.x.ts.BV(1, 64) })
	reg("runtime.ReadMemStats", func(fr *frame, args []Value) Value { return nil })
	reg("runtime.KeepAlive", func(fr *frame, args []Value) Value { return nil })
	reg("runtime.SetFinalizer", func(fr *frame, args []Value) Value { return nil })
	reg("runtime/debug.Stack", func(fr *frame, args []Value) Value { return Slice{Nil: true} })
	reg("runtime/debug.PrintStack", func(fr *frame, args []Value) Value { return nil })
	reg("os.Getpid", func(fr *frame, args []Value) Value { return fr.x.ts.BV(4242, 64) })
	reg("os.Exit", func(fr *frame, args []Value) Value {
		panic(targetPanic{v: fr.x.runtimeErr("os.Exit called")})
	})

	// ---- ergo logging: empty bodies (formatting and log routing are not the subject) ----
	for _, m := range []string{"Trace", "Debug", "Info", "Warning", "Error", "Panic"} {
		reg("(*ergo.services/ergo/node.log)."+m, func(fr *frame, args []Value) Value { return nil })
	}

	// ---- regexp: compiled and matched natively (concrete strings only) ----------------
	reg("regexp.MustCompile", func(fr *frame, args []Value) Value {
		var v Value = Native{X: regexp.MustCompile(concStr(fr.x, args[0]))}
		return &v
	})
	reg("(*regexp.Regexp).MatchString", func(fr *frame, args []Value) Value {
		re := (*args[0].(Ptr)).(Native).X.(*regexp.Regexp)
		return fr.x.ts.Bool(re.MatchString(concStr(fr.x, args[1])))
	})
	reg("(*regexp.Regexp).FindStringSubmatch", func(fr *frame, args []Value) Value {
		re := (*args[0].(Ptr)).(Native).X.(*regexp.Regexp)
		m := re.FindStringSubmatch(concStr(fr.x, args[1]))
		if m == nil {
			return Slice{Nil: true}
		}
		var out []Value
		for _, p := range m {
			out = append(out, fr.x.mkStr(p))
		}
		return Slice{S: out}
	})

	// ---- sort.Slice: insertion sort (what pdqsort does for n <= 12), less() interpreted ----
	sortSlice := func(fr *frame, args []Value) Value {
		x := fr.x
		sl := args[0].(Iface).V.(Slice).S
		if len(sl) > 12 {
			x.unsupported("sort.Slice of more than 12 elements")
		}
		for i := 1; i < len(sl); i++ {
			for j := i; j > 0; j-- {
				r := x.call(fr, 0, args[1], []Value{x.ts.BV(uint64(j), 64), x.ts.BV(uint64(j-1), 64)}).(*Term)
				if !x.Branch(r) {
					break
				}
				a, b := copyVal(sl[j]), copyVal(sl[j-1])
				x.store(&sl[j], b)
				x.store(&sl[j-1], a)
			}
		}
		return nil
	}
	reg("sort.Slice", sortSlice)
	reg("sort.SliceStable", sortSlice)

	// ---- math bits ----------------------------------------------------------------------
	id := func(fr *frame, args []Value) Value { return args[0] }
	reg("math.Float64bits", id)
	reg("math.Float64frombits", id)
	reg("math.Float32bits", id)
	reg("math.Float32frombits", id)

	reg("internal/bytealg.IndexByte", func(fr *frame, args []Value) Value {
		x := fr.x
		sl := args[0].(Slice)
		c, ok := args[1].(*Term)
		if !ok || !c.IsConst() {
			x.unsupported("bytealg.IndexByte with a symbolic byte")
		}
		for i, v := range sl.S {
			t, ok := v.(*Term)
			if !ok || !t.IsConst() {
				x.unsupported("bytealg.IndexByte over symbolic bytes")
			}
			if t.C == c.C {
				return x.ts.BV(uint64(i), 64)
			}
		}
		return x.ts.BV(^uint64(0), 64)
	})
	reg("internal/bytealg.IndexByteString", func(fr *frame, args []Value) Value {
		x := fr.x
		st := args[0].(Str)
		c, ok := args[1].(*Term)
		if !ok || !c.IsConst() || !st.Conc {
			x.unsupported("bytealg.IndexByteString on symbolic data")
		}
		return x.ts.BV(uint64(int64(strings.IndexByte(st.C, byte(c.C)))), 64)
	})

	// ---- strings / strconv fast paths on concrete arguments ---------------------------------
	reg("strconv.Itoa", func(fr *frame, args []Value) Value {
		x := fr.x
		t := args[0].(*Term)
		if !t.IsConst() {
			return x.opaqueStr("itoa")
		}
		return x.mkStr(strconv.Itoa(int(t.Int())))
	})
	reg("strconv.Atoi", func(fr *frame, args []Value) Value {
		x := fr.x
		s := args[0].(Str)
		if !s.Conc {
			x.unsupported("strconv.Atoi of symbolic string")
		}
		n, err := strconv.Atoi(s.C)
		if err != nil {
			return Tuple{x.ts.BV(0, 64), x.mkError("strconv.Atoi: " + err.Error())}
		}
		return Tuple{x.ts.BV(uint64(int64(n)), 64), Iface{}}
	})
	strFn1 := func(f func(string) string) intrinsic {
		return func(fr *frame, args []Value) Value {
			s := args[0].(Str)
			if !s.Conc {
				fr.x.unsupported("strings function on symbolic string")
			}
			return fr.x.mkStr(f(s.C))
		}
	}
	reg("strings.ToUpper", strFn1(strings.ToUpper))
	reg("strings.ToLower", strFn1(strings.ToLower))
	reg("strings.TrimSpace", strFn1(strings.TrimSpace))
	strFn2 := func(f func(a, b string) string) intrinsic {
		return func(fr *frame, args []Value) Value {
			a, b := args[0].(Str), args[1].(Str)
			if !a.Conc || !b.Conc {
				fr.x.unsupported("strings function on symbolic string")
			}
			return fr.x.mkStr(f(a.C, b.C))
		}
	}
	reg("strings.TrimPrefix", strFn2(strings.TrimPrefix))
	reg("strings.TrimSuffix", strFn2(strings.TrimSuffix))
	reg("strings.Trim", strFn2(strings.Trim))
	reg("strings.TrimLeft", strFn2(strings.TrimLeft))
	reg("strings.TrimRight", strFn2(strings.TrimRight))
	strPred := func(f func(a, b string) bool) intrinsic {
		return func(fr *frame, args []Value) Value {
			a, b := args[0].(Str), args[1].(Str)
			if !a.Conc || !b.Conc {
				fr.x.unsupported("strings predicate on symbolic string")
			}
			return fr.x.ts.Bool(f(a.C, b.C))
		}
	}
	reg("strings.HasPrefix", strPred(strings.HasPrefix))
	reg("strings.HasSuffix", strPred(strings.HasSuffix))
	reg("strings.Contains", strPred(strings.Contains))
	reg("strings.EqualFold", strPred(strings.EqualFold))
	strSplit := func(f func(a, b string) []string) intrinsic {
		return func(fr *frame, args []Value) Value {
			a, b := args[0].(Str), args[1].(Str)
			if !a.Conc || !b.Conc {
				fr.x.unsupported("strings.Split on symbolic string")
			}
			var out []Value
			for _, p := range f(a.C, b.C) {
				out = append(out, fr.x.mkStr(p))
			}
			return Slice{S: out}
		}
	}
	reg("strings.Split", strSplit(strings.Split))
	reg("strings.Fields", func(fr *frame, args []Value) Value {
		a := args[0].(Str)
		if !a.Conc {
			fr.x.unsupported("strings.Fields on symbolic string")
		}
		var out []Value
		for _, p := range strings.Fields(a.C) {
			out = append(out, fr.x.mkStr(p))
		}
		return Slice{S: out}
	})
	reg("strings.Index", func(fr *frame, args []Value) Value {
		a, b := args[0].(Str), args[1].(Str)
		if !a.Conc || !b.Conc {
			fr.x.unsupported("strings.Index on symbolic string")
		}
		return fr.x.ts.BV(uint64(int64(strings.Index(a.C, b.C))), 64)
	})
	reg("strings.Repeat", func(fr *frame, args []Value) Value {
		a := args[0].(Str)
		n := args[1].(*Term)
		if !a.Conc || !n.IsConst() {
			fr.x.unsupported("strings.Repeat symbolic")
		}
		return fr.x.mkStr(strings.Repeat(a.C, int(n.Int())))
	})
	reg("strings.Join", func(fr *frame, args []Value) Value {
		x := fr.x
		var parts []string
		for _, e := range args[0].(Slice).S {
			s := e.(Str)
			if !s.Conc {
				return x.opaqueStr("join")
			}
			parts = append(parts, s.C)
		}
		sep := args[1].(Str)
		return x.mkStr(strings.Join(parts, sep.C))
	})
}

func (x *Exec) nonNil(v Value) Ptr {
	p, ok := v.(Ptr)
	if !ok || p == nil {
		x.targetPanicStr("runtime error: invalid memory address or nil pointer dereference (atomic)")
	}
	return p
}

func posOf(fr *frame) string {
	if fr.caller != nil && fr.callpos.IsValid() {
		p := fr.x.prog.Fset.Position(fr.callpos)
		f := p.Filename
		if i := strings.LastIndexByte(f, '/'); i >= 0 {
			f = f[i+1:]
		}
		return fmt.Sprintf("%s:%d", f, p.Line)
	}
	return "?"
}

func concStr(x *Exec, v Value) string {
	s, ok := v.(Str)
	if !ok || !s.Conc {
		x.unsupported("expected a concrete string argument")
	}
	return s.C
}

// ---------------------------------------------------------------------------
// locks

type lockState struct {
	writer  *G
	readers map[*G]int
}

func (x *Exec) lockOf(p Ptr) *lockState {
	if p == nil {
		x.targetPanicStr("runtime error: invalid memory address or nil pointer dereference (mutex)")
	}
	l := x.locks[p]
	if l == nil {
		l = &lockState{readers: map[*G]int{}}
		x.locks[p] = l
	}
	return l
}

func (x *Exec) lock(p Ptr, write, try bool) bool {
	if x.cm.active() {
		// lock word as a shared cell: readers + 1000*writer
		x.cm.markShared(x.cm.lockCell(p))
		got := false
		x.cm.sharedRMW(x.cm.lockCell(p), "lock", func(o Value) (Value, bool) {
			v := o.(*Term).C
			if write && v == 0 {
				got = true
				return x.ts.BV(1000, 64), true
			}
			// more read holders than threads is impossible: without this bound the candidate
			// values of the lock word (k readers -> k+1 readers) never stabilise
			maxR := uint64(len(x.cm.threads))
			if maxR < 4 {
				maxR = 4
			}
			if !write && v < 1000 && v < maxR {
				got = true
				return x.ts.BV(v+1, 64), true
			}
			return nil, false
		})
		if !got && !try {
			panic(pathEnd{kind: "cm-blocked", msg: "lock held"})
		}
		if got {
			if g := x.cm.guardOfLock(p); g != nil {
				x.cm.guardAcquire(g)
			}
		}
		return got
	}
	l := x.lockOf(p)
	g := x.cur
	free := func() bool {
		if write {
			return l.writer == nil && len(l.readers) == 0
		}
		return l.writer == nil
	}
	if !free() {
		if try {
			return false
		}
		if l.writer == g || (write && l.readers[g] > 0 && len(l.readers) == 1) {
			mode := "Lock"
			if !write {
				mode = "RLock"
			}
			held := "read"
			if l.writer == g {
				held = "write"
			}
			panic(pathEnd{kind: "hang", msg: fmt.Sprintf("self-deadlock: %s on a mutex this goroutine already holds for %s", mode, held) + x.whereAmI()})
		}
		x.block(free, "mutex")
	}
	if write {
		l.writer = g
	} else {
		l.readers[g]++
	}
	return true
}

func (x *Exec) unlock(p Ptr, write bool) {
	if x.cm.active() {
		if g := x.cm.guardOfLock(p); g != nil && write {
			x.cm.guardRelease(g)
		}
		x.cm.sharedRMW(x.cm.lockCell(p), "unlock", func(o Value) (Value, bool) {
			v := o.(*Term).C
			if write {
				return x.ts.BV(0, 64), true
			}
			if v == 0 || v >= 1000 {
				return x.ts.BV(0, 64), true
			}
			return x.ts.BV(v-1, 64), true
		})
		return
	}
	l := x.lockOf(p)
	if write {
		if l.writer == nil {
			x.targetPanicStr("fatal error: sync: unlock of unlocked mutex")
		}
		l.writer = nil
		return
	}
	g := x.cur
	if l.readers[g] == 0 {
		g = nil
		for o := range l.readers {
			g = o
			break
		}
		if g == nil {
			x.targetPanicStr("fatal error: sync: RUnlock of unlocked RWMutex")
		}
	}
	if l.readers[g] <= 1 {
		delete(l.readers, g)
	} else {
		l.readers[g]--
	}
}

func (x *Exec) wgCounter(p Ptr) *int64 {
	c := x.wgs[p]
	if c == nil {
		c = new(int64)
		x.wgs[p] = c
	}
	return c
}

func (x *Exec) smap(p Ptr) *Map {
	if p == nil {
		x.targetPanicStr("runtime error: invalid memory address or nil pointer dereference (sync.Map)")
	}
	m := x.smaps[p]
	if m == nil {
		x.mapSeq++
		m = &Map{id: x.mapSeq}
		x.smaps[p] = m
		if x.journalOn {
			x.journal = append(x.journal, func() { delete(x.smaps, p) })
		}
	}
	return m
}

// ---------------------------------------------------------------------------
// time

func (x *Exec) timeType() types.Type {
	if p := x.prog.ImportedPackage("time"); p != nil {
		return p.Type("Time").Object().Type()
	}
	return nil
}

const unixToInternal = (1969*365 + 1969/4 - 1969/100 + 1969/400) * 86400

// nowValue returns a time.Time (UTC, no monotonic reading). Default: a fresh symbolic instant
// not before the previous one. After lib.VerifClockAdvance the clock is manual: the instant is
// the harness-controlled millisecond counter.
func (x *Exec) nowValue() Value {
	ts := x.ts
	const base = 1_700_000_000
	var total *Term // unix milliseconds
	var sec, ms *Term
	if x.manualClock != nil {
		if len(x.clockSteps) > 0 {
			t := x.Fresh("clockstep", 64)
			x.Assume(ts.Cmp(OpULt, t, ts.BV(uint64(len(x.clockSteps)), 64)), "clock step in range")
			k := x.Concretize(t, "clock step")
			x.manualClock = ts.Bin(OpAdd, x.manualClock, ts.BV(uint64(x.clockSteps[k]), 64))
		}
		total = x.manualClock
		sec = ts.Bin(OpUDiv, total, ts.BV(1000, 64))
		ms = ts.Bin(OpURem, total, ts.BV(1000, 64))
	} else {
		sec = x.Fresh("now.sec", 64)
		ms = x.Fresh("now.ms", 64)
		// extend the current model for the two fresh symbols so that the assumptions below hold
		// without a solver call (any value of an unconstrained symbol extends a model)
		hs, hm := uint64(base), uint64(0)
		if x.lastNow[0] != nil {
			if v, ok := x.eval(x.lastNow[0]); ok {
				hs = v
			}
			if v, ok := x.eval(x.lastNow[1]); ok {
				hm = v
			}
		}
		x.hint(sec, hs)
		x.hint(ms, hm)
		x.Assume(ts.And(ts.Cmp(OpULe, ts.BV(base, 64), sec), ts.Cmp(OpULt, sec, ts.BV(base+1<<20, 64))), "clock range (2^20 s window)")
		x.Assume(ts.Cmp(OpULt, ms, ts.BV(1000, 64)), "clock ms < 1000")
		if x.lastNow[0] != nil {
			ps, pm := x.lastNow[0], x.lastNow[1]
			x.Assume(ts.Or(ts.Cmp(OpULt, ps, sec), ts.And(ts.Eq(ps, sec), ts.Cmp(OpULe, pm, ms))), "clock non-decreasing")
		}
		x.lastNow = [2]*Term{sec, ms}
		total = ts.Bin(OpAdd, ts.Bin(OpMul, sec, ts.BV(1000, 64)), ms)
	}
	nsec := ts.Bin(OpMul, ms, ts.BV(1_000_000, 64))
	x.wallMs[nsec.ID] = total
	ext := ts.Bin(OpAdd, sec, ts.BV(uint64(unixToInternal), 64))
	return Struct{nsec, ext, Ptr(nil)}
}

func (x *Exec) durOf(d *Term) int64 {
	if d.IsConst() {
		return d.Int()
	}
	return 1 << 40
}

func (x *Exec) newTimer(d *Term) *timerObj {
	x.timerSeq++
	t := &timerObj{dur: x.durOf(d), seq: x.timerSeq, active: true}
	x.timers = append(x.timers, t)
	return t
}

// timerValue builds a *time.Timer whose identity maps back to t.
func (x *Exec) timerValue(fr *frame, t *timerObj, _ string) Value {
	tt := x.prog.ImportedPackage("time").Type("Timer").Object().Type()
	var v Value = x.zero(tt)
	st := v.(Struct)
	// field C is the channel
	stT := tt.Underlying().(*types.Struct)
	for i := 0; i < stT.NumFields(); i++ {
		if stT.Field(i).Name() == "C" {
			if t.ch != nil {
				st[i] = t.ch
			}
		}
	}
	p := &v
	x.timerObjs[p] = t
	return p
}

func (x *Exec) timerOf(p Ptr) *timerObj { return x.timerObjs[p] }

// ---------------------------------------------------------------------------
// fmt, errors

func (x *Exec) opaqueStr(tag string) Str {
	x.opaqueN++
	return x.mkStr(fmt.Sprintf("<%s#%d>", tag, x.opaqueN))
}

// nativeArg converts simple concrete values to Go values for real formatting.
func (x *Exec) nativeArg(v Value) (interface{}, bool) {
	itf, ok := v.(Iface)
	if !ok {
		return nil, false
	}
	if itf.T == nil {
		return nil, true
	}
	switch vv := itf.V.(type) {
	case *Term:
		if !vv.IsConst() {
			return nil, false
		}
		if vv.W == 0 {
			return vv.C == 1, true
		}
		if isSigned(itf.T) {
			return vv.Int(), true
		}
		if isFloat(itf.T) {
			return x.floatVal(vv), true
		}
		return vv.C, true
	case Str:
		if vv.Conc {
			return vv.C, true
		}
	case Slice:
		// a concrete byte slice (e.g. a hash sum formatted with %x)
		if vv.Nil {
			return []byte(nil), true
		}
		out := make([]byte, len(vv.S))
		for i, e := range vv.S {
			t, ok := e.(*Term)
			if !ok || !t.IsConst() || t.W != 8 {
				return nil, false
			}
			out[i] = byte(t.C)
		}
		return out, true
	}
	return nil, false
}

func (x *Exec) sprintf(format Value, argv Value) Value {
	f := format.(Str)
	args := argv.(Slice).S
	if !f.Conc {
		return x.opaqueStr("sprintf")
	}
	var nat []interface{}
	for _, a := range args {
		n, ok := x.nativeArg(a)
		if !ok {
			return x.mkStr("<fmt:" + f.C + ">")
		}
		nat = append(nat, n)
	}
	return x.mkStr(fmt.Sprintf(f.C, nat...))
}

func (x *Exec) mkError(msg string) Value {
	ep := x.prog.ImportedPackage("errors")
	if ep == nil {
		x.unsupported("errors package not loaded")
	}
	t := ep.Type("errorString").Object().Type()
	var v Value = Struct{x.mkStr(msg)}
	return Iface{T: types.NewPointer(t), V: &v}
}

// errorf models fmt.Errorf: the text is real when arguments are concrete scalars/strings, %w wraps.
func (x *Exec) errorf(format Value, argv Value) Value {
	f := format.(Str)
	args := argv.(Slice).S
	var wrapped Value
	if f.Conc && strings.Contains(f.C, "%w") {
		// find the first error-typed argument matching %w position
		idx := 0
		for i := 0; i+1 < len(f.C); i++ {
			if f.C[i] == '%' {
				if f.C[i+1] == '%' {
					i++
					continue
				}
				if f.C[i+1] == 'w' {
					if idx < len(args) {
						wrapped = args[idx]
					}
					break
				}
				idx++
			}
		}
	}
	msg := x.sprintfErr(f, args)
	fp := x.prog.ImportedPackage("fmt")
	if wrapped != nil && fp != nil {
		if w, ok := wrapped.(Iface); ok && w.T != nil {
			t := fp.Type("wrapError").Object().Type()
			var v Value = Struct{msg, w}
			return Iface{T: types.NewPointer(t), V: &v}
		}
	}
	if fp != nil {
		// fmt.Errorf without %w returns *fmt.wrapError? No: *errors.errorString via errors.New
	}
	ep := x.prog.ImportedPackage("errors")
	t := ep.Type("errorString").Object().Type()
	var v Value = Struct{msg}
	return Iface{T: types.NewPointer(t), V: &v}
}

func (x *Exec) sprintfErr(f Str, args []Value) Str {
	if !f.Conc {
		// symbolic format string: text is exact iff no byte can be '%'
		if len(args) == 0 {
			x.fmtSymbolic++
			pct := x.ts.F
			for _, b := range f.B {
				pct = x.ts.Or(pct, x.ts.Eq(b, x.ts.BV('%', 8)))
			}
			if !x.Branch(pct) {
				return f
			}
			// contains '%': concretise the bytes so that the real formatting can be applied
			bs := make([]byte, len(f.B))
			for i, b := range f.B {
				bs[i] = byte(x.Concretize(b, "format byte"))
			}
			return x.mkStr(fmt.Errorf(string(bs)).Error())
		}
		return x.opaqueStr("errorf")
	}
	var nat []interface{}
	for _, a := range args {
		n, ok := x.nativeArg(a)
		if !ok {
			// errors as arguments: use their text if concrete
			if itf, isI := a.(Iface); isI && itf.T != nil {
				if s, ok2 := x.errText(itf); ok2 {
					nat = append(nat, fmt.Errorf("%s", s))
					continue
				}
			}
			return x.mkStr("<fmt:" + f.C + ">")
		}
		nat = append(nat, n)
	}
	return x.mkStr(fmt.Errorf(f.C, nat...).Error())
}

func (x *Exec) errText(e Iface) (string, bool) {
	if p, ok := e.V.(Ptr); ok && p != nil {
		if st, ok := (*p).(Struct); ok && len(st) > 0 {
			if s, ok := st[0].(Str); ok && s.Conc {
				return s.C, true
			}
		}
	}
	return "", false
}

func (x *Exec) errorsIs(fr *frame, err, target Iface) Value {
	ts := x.ts
	for depth := 0; depth < 32; depth++ {
		if err.T == nil {
			return ts.Bool(target.T == nil)
		}
		if target.T != nil && types.Identical(err.T, target.T) && types.Comparable(err.T) {
			eq := x.equal(err.T, err.V, target.V)
			if x.Branch(eq) {
				return ts.T
			}
		}
		// Is(target) method
		if m := x.findMethod(err.T, "Is"); m != nil && m.Signature.Params().Len() == 1 {
			if r, ok := x.call(fr, 0, m, []Value{err.V, target}).(*Term); ok && x.Branch(r) {
				return ts.T
			}
		}
		m := x.findMethod(err.T, "Unwrap")
		if m == nil {
			return ts.F
		}
		r := x.call(fr, 0, m, []Value{err.V})
		next, ok := r.(Iface)
		if !ok {
			return ts.F // Unwrap() []error not modelled
		}
		err = next
	}
	return ts.F
}

func (x *Exec) findMethod(t types.Type, name string) *ssa.Function {
	ms := x.prog.MethodSets.MethodSet(t)
	for i := 0; i < ms.Len(); i++ {
		sel := ms.At(i)
		if sel.Obj().Name() == name {
			return x.prog.MethodValue(sel)
		}
	}
	return nil
}
