package engine

import (
	"time"
)

// Summary of the pure stdlib function time.absDate (absolute seconds -> year, month, day, yday).
//
// When the stated bounds of the path condition confine the argument to a few civil months, the
// result is built as an if-then-else over those months with the day obtained by one division,
// instead of dragging the 400/100/4-year cycle division chains of the real body through every query.
// The month table is computed with the native time package, i.e. by the function being summarised.
// Outside that situation (no bounds, wide range) the real body is interpreted. The summary is
// validated like every other part of the executor by the native witness replay of each entry, and
// by TestAbsDateSummary.

// unix = int64(abs - absToUnixC): time.Time.abs() adds unixToInternal + internalToAbsolute.
const absToUnixC = uint64(62135596800 + 9223371966579724800)

type absSeg struct {
	start, end uint64 // [start,end) in absolute seconds
	year       int
	month      int
	yearStart  uint64
}

func absSegments(lo, hi uint64, max int) []absSeg {
	toTime := func(a uint64) time.Time { return time.Unix(int64(a-absToUnixC), 0).UTC() }
	toAbs := func(t time.Time) uint64 { return uint64(t.Unix()) + absToUnixC }
	t0 := toTime(lo)
	ms := time.Date(t0.Year(), t0.Month(), 1, 0, 0, 0, 0, time.UTC)
	var segs []absSeg
	for {
		next := ms.AddDate(0, 1, 0)
		s := absSeg{start: toAbs(ms), end: toAbs(next), year: ms.Year(), month: int(ms.Month()),
			yearStart: toAbs(time.Date(ms.Year(), 1, 1, 0, 0, 0, 0, time.UTC))}
		segs = append(segs, s)
		if s.end > hi {
			return segs
		}
		if len(segs) >= max {
			return nil
		}
		ms = next
	}
}

func init() {
	intrinsics["time.absDate"] = func(fr *frame, args []Value) Value {
		x := fr.x
		abs, ok1 := args[0].(*Term)
		full, ok2 := args[1].(*Term)
		if !ok1 || !ok2 || abs.IsConst() || !full.IsConst() || len(x.bounds) == 0 || x.noFold {
			return fallthroughVal{}
		}
		if x.ivMemo == nil {
			x.ivMemo = map[int]ival{}
		}
		r := x.rangeOf(abs, x.ivMemo)
		// years 1..9999 only, at most five months wide
		if !r.ok || r.lo < absToUnixC-62135596800 || r.hi > absToUnixC+253402300799 || r.hi-r.lo > 140*86400 {
			return fallthroughVal{}
		}
		segs := absSegments(r.lo, r.hi, 5)
		if segs == nil {
			return fallthroughVal{}
		}
		ts := x.ts
		c := func(v int) *Term { return ts.BV(uint64(int64(v)), 64) }
		dayOf := func(s absSeg) *Term {
			return ts.Bin(OpAdd, ts.Bin(OpUDiv, ts.Bin(OpSub, abs, ts.BV(s.start, 64)), ts.BV(86400, 64)), c(1))
		}
		ydayOf := func(s absSeg) *Term {
			return ts.Bin(OpUDiv, ts.Bin(OpSub, abs, ts.BV(s.yearStart, 64)), ts.BV(86400, 64))
		}
		last := segs[len(segs)-1]
		year, month, day, yday := c(last.year), c(last.month), dayOf(last), ydayOf(last)
		for i := len(segs) - 2; i >= 0; i-- {
			s := segs[i]
			in := ts.Cmp(OpULt, abs, ts.BV(s.end, 64))
			year = ts.Ite(in, c(s.year), year)
			month = ts.Ite(in, c(s.month), month)
			day = ts.Ite(in, dayOf(s), day)
			yday = ts.Ite(in, ydayOf(s), yday)
		}
		x.Summarised++
		if full.C == 0 {
			return Tuple{year, c(0), c(0), yday}
		}
		return Tuple{year, month, day, yday}
	}
}

func init() {
	// crypto/sha256.block has an assembly body on amd64: run the portable Go body instead.
	intrinsics["crypto/sha256.block"] = func(fr *frame, args []Value) Value {
		x := fr.x
		p := x.prog.ImportedPackage("crypto/sha256")
		if p == nil || p.Func("blockGeneric") == nil {
			x.unsupported("crypto/sha256.blockGeneric not found")
		}
		return x.call(fr, 0, p.Func("blockGeneric"), args)
	}
	// crypto/rand.Read: the executor's randomness is a byte pattern that differs from call to call (the harnesses that use it do
	// not depend on the values; natively the real generator runs).
	intrinsics["crypto/rand.Read"] = func(fr *frame, args []Value) Value {
		x := fr.x
		sl := args[0].(Slice)
		x.randSeq++ // every call yields different bytes (fresh nonces stay fresh)
		for i := range sl.S {
			x.store(&sl.S[i], x.ts.BV(uint64(0xa5^byte(i*37)^byte(x.randSeq*101)), 8))
		}
		return Tuple{x.ts.BV(uint64(len(sl.S)), 64), Iface{}}
	}
}

func init() {
	nop := func(fr *frame, args []Value) Value { return nil }
	intrinsics["crypto/internal/boring/sig.StandardCrypto"] = nop
	intrinsics["crypto/internal/boring/sig.BoringCrypto"] = nop
	intrinsics["crypto/internal/boring/sig.FIPSOnly"] = nop
}

func init() {
	intrinsics["crypto.RegisterHash"] = func(fr *frame, args []Value) Value { return nil }
}
