package engine

import (
	"math/rand"
	"testing"
	"time"
)

// The month table behind the time.absDate summary agrees with the time package itself.
func TestAbsDateSummary(t *testing.T) {
	rnd := rand.New(rand.NewSource(1))
	for i := 0; i < 200000; i++ {
		unix := rnd.Int63n(253402300799+62135596800) - 62135596800 // years 1..9999
		abs := uint64(unix) + absToUnixC
		lo := abs - uint64(rnd.Int63n(70*86400))
		hi := abs + uint64(rnd.Int63n(70*86400))
		if lo < absToUnixC-62135596800 || hi > absToUnixC+253402300799 {
			continue
		}
		segs := absSegments(lo, hi, 6)
		if segs == nil {
			t.Fatalf("no segments for %d..%d", lo, hi)
		}
		tt := time.Unix(unix, 0).UTC()
		found := false
		for _, s := range segs {
			if abs >= s.start && abs < s.end {
				found = true
				day := int((abs-s.start)/86400) + 1
				yday := int((abs - s.yearStart) / 86400)
				if s.year != tt.Year() || s.month != int(tt.Month()) || day != tt.Day() || yday != tt.YearDay()-1 {
					t.Fatalf("%v: summary gives %d-%d-%d yday %d", tt, s.year, s.month, day, yday)
				}
			}
		}
		if !found {
			t.Fatalf("%v not covered by segments", tt)
		}
	}
}
