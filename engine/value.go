package engine

import (
	"fmt"
	"go/types"
	"strings"

	"golang.org/x/tools/go/ssa"
)

// Value is a dynamic value of the executor:
//
//	*Term            bool, integers, floats (as bit patterns), unsafe.Pointer-as-integer never
//	*Value (Ptr)     pointer to a memory slot (nil pointer = (*Value)(nil))
//	Struct, Array    aggregates by value
//	Slice            {backing slots, nil flag}
//	Str              string, concrete or a sequence of byte terms
//	Iface            interface value
//	*Map, *Chan      reference objects (nil = typed nil pointer)
//	*ssa.Function, *Closure, *ssa.Builtin   function values
//	Tuple            multiple results
type Value interface{}

type Ptr = *Value
type Struct []Value
type Array []Value
type Tuple []Value

type Slice struct {
	S   []Value
	Nil bool
}

// Str is a string: concrete (Conc) or a sequence of byte terms of concrete length.
type Str struct {
	Conc bool
	C    string
	B    []*Term
}

type Iface struct {
	T types.Type // nil for the nil interface
	V Value
}

type Closure struct {
	Fn  *ssa.Function
	Env []Value
}

type mapEnt struct {
	k, v Value
	live *Term // presence (Bool term)
}

type Map struct {
	ents []*mapEnt
	kt   types.Type
	vt   types.Type
	id   int
}

type Chan struct {
	buf    []Value
	cap    int
	closed bool
	et     types.Type
	id     int
	timer  *timerObj // non-nil if fed by a timer
}

// opaque native payload (used for reflect-model objects and other executor-level things)
type Native struct {
	X interface{}
}

func isNilFunc(v Value) bool {
	switch f := v.(type) {
	case nil:
		return true
	case *Closure:
		return f == nil
	case *ssa.Function:
		return f == nil
	}
	return false
}

func (x *Exec) widthOf(t types.Type) int {
	switch b := t.Underlying().(type) {
	case *types.Basic:
		switch b.Kind() {
		case types.Bool, types.UntypedBool:
			return 0
		case types.Int8, types.Uint8:
			return 8
		case types.Int16, types.Uint16:
			return 16
		case types.Int32, types.Uint32, types.Float32, types.UntypedRune:
			return 32
		case types.Int, types.Uint, types.Int64, types.Uint64, types.Uintptr, types.Float64, types.UntypedInt, types.UntypedFloat:
			return 64
		}
	}
	return -1
}

func isSigned(t types.Type) bool {
	if b, ok := t.Underlying().(*types.Basic); ok {
		return b.Info()&types.IsInteger != 0 && b.Info()&types.IsUnsigned == 0
	}
	return false
}

func isFloat(t types.Type) bool {
	if b, ok := t.Underlying().(*types.Basic); ok {
		return b.Info()&types.IsFloat != 0
	}
	return false
}

func isString(t types.Type) bool {
	if b, ok := t.Underlying().(*types.Basic); ok {
		return b.Info()&types.IsString != 0
	}
	return false
}

// zero returns the zero value of type t.
func (x *Exec) zero(t types.Type) Value {
	switch u := t.Underlying().(type) {
	case *types.Basic:
		if u.Kind() == types.UnsafePointer {
			return Ptr(nil)
		}
		if u.Info()&types.IsString != 0 {
			return Str{Conc: true}
		}
		if u.Kind() == types.UntypedNil {
			return nil
		}
		w := x.widthOf(t)
		if w == 0 {
			return x.ts.F
		}
		if w < 0 {
			x.unsupported("zero of basic type " + t.String())
		}
		return x.ts.BV(0, w)
	case *types.Pointer:
		return Ptr(nil)
	case *types.Struct:
		s := make(Struct, u.NumFields())
		for i := range s {
			s[i] = x.zero(u.Field(i).Type())
		}
		return s
	case *types.Array:
		n := int(u.Len())
		a := make(Array, n)
		if n > 0 {
			z := x.zero(u.Elem())
			if _, scalar := z.(*Term); scalar {
				for i := range a {
					a[i] = z
				}
			} else {
				a[0] = z
				for i := 1; i < n; i++ {
					a[i] = x.zero(u.Elem())
				}
			}
		}
		return a
	case *types.Slice:
		return Slice{Nil: true}
	case *types.Interface:
		return Iface{}
	case *types.Map:
		return (*Map)(nil)
	case *types.Chan:
		return (*Chan)(nil)
	case *types.Signature:
		return (*Closure)(nil)
	case *types.Tuple:
		if u.Len() == 1 {
			return x.zero(u.At(0).Type())
		}
		tp := make(Tuple, u.Len())
		for i := range tp {
			tp[i] = x.zero(u.At(i).Type())
		}
		return tp
	}
	x.unsupported(fmt.Sprintf("zero of %T %s", t.Underlying(), t))
	return nil
}

// copyVal copies aggregates so that slots never alias.
func copyVal(v Value) Value {
	switch v := v.(type) {
	case Struct:
		n := make(Struct, len(v))
		for i, f := range v {
			n[i] = copyVal(f)
		}
		return n
	case Array:
		n := make(Array, len(v))
		for i, f := range v {
			n[i] = copyVal(f)
		}
		return n
	}
	return v
}

func (x *Exec) mkStr(s string) Str { return Str{Conc: true, C: s} }

func (s Str) Len() int {
	if s.Conc {
		return len(s.C)
	}
	return len(s.B)
}

func (x *Exec) strBytes(s Str) []*Term {
	if !s.Conc {
		return s.B
	}
	out := make([]*Term, len(s.C))
	for i := 0; i < len(s.C); i++ {
		out[i] = x.ts.BV(uint64(s.C[i]), 8)
	}
	return out
}

// normStr makes a Str concrete if all of its bytes are constants.
func (x *Exec) normStr(b []*Term) Str {
	for _, t := range b {
		if !t.IsConst() {
			return Str{B: b}
		}
	}
	var sb strings.Builder
	for _, t := range b {
		sb.WriteByte(byte(t.C))
	}
	return Str{Conc: true, C: sb.String()}
}

// equal returns a Bool term for a == b (Go comparison semantics) for values of static type t.
func (x *Exec) equal(t types.Type, a, b Value) *Term {
	ts := x.ts
	switch a := a.(type) {
	case *Term:
		bt, ok := b.(*Term)
		if !ok {
			return ts.F
		}
		if a.W != bt.W {
			return ts.F
		}
		if t != nil && isFloat(t) {
			x.unsupported("float comparison")
		}
		return ts.Eq(a, bt)
	case Ptr:
		bp, ok := b.(Ptr)
		if !ok {
			return ts.F
		}
		return ts.Bool(a == bp)
	case Str:
		bs, ok := b.(Str)
		if !ok {
			return ts.F
		}
		if a.Conc && bs.Conc {
			return ts.Bool(a.C == bs.C)
		}
		if a.Len() != bs.Len() {
			return ts.F
		}
		ab, bb := x.strBytes(a), x.strBytes(bs)
		r := ts.T
		for i := range ab {
			r = ts.And(r, ts.Eq(ab[i], bb[i]))
		}
		return r
	case Struct:
		bs, ok := b.(Struct)
		if !ok || len(a) != len(bs) {
			return ts.F
		}
		var st *types.Struct
		if t != nil {
			st, _ = t.Underlying().(*types.Struct)
		}
		r := ts.T
		for i := range a {
			var ft types.Type
			if st != nil {
				ft = st.Field(i).Type()
			}
			r = ts.And(r, x.equal(ft, a[i], bs[i]))
			if r.IsFalse() {
				return r
			}
		}
		return r
	case Array:
		ba, ok := b.(Array)
		if !ok || len(a) != len(ba) {
			return ts.F
		}
		var et types.Type
		if t != nil {
			if at, ok := t.Underlying().(*types.Array); ok {
				et = at.Elem()
			}
		}
		r := ts.T
		for i := range a {
			r = ts.And(r, x.equal(et, a[i], ba[i]))
			if r.IsFalse() {
				return r
			}
		}
		return r
	case Iface:
		bi, ok := b.(Iface)
		if !ok {
			return ts.F
		}
		if a.T == nil || bi.T == nil {
			return ts.Bool(a.T == nil && bi.T == nil)
		}
		if !types.Identical(a.T, bi.T) {
			return ts.F
		}
		if !types.Comparable(a.T) {
			x.targetPanicStr("runtime error: comparing uncomparable type " + a.T.String())
		}
		return x.equal(a.T, a.V, bi.V)
	case *Map:
		bm, _ := b.(*Map)
		return ts.Bool(a == bm)
	case *Chan:
		bc, _ := b.(*Chan)
		return ts.Bool(a == bc)
	case Slice:
		// only comparison with nil is legal
		bs, _ := b.(Slice)
		return ts.Bool(a.Nil && bs.Nil)
	case *Closure:
		return ts.Bool(isNilFunc(a) && isNilFunc(b))
	case *ssa.Function:
		return ts.Bool(isNilFunc(a) && isNilFunc(b))
	case nil:
		return ts.Bool(isNilFunc(b))
	case Native:
		bn, ok := b.(Native)
		if !ok {
			return ts.F
		}
		if ab, isT := a.X.(rtypeBox); isT {
			bb, isT2 := bn.X.(rtypeBox)
			return ts.Bool(isT2 && types.Identical(ab.t, bb.t))
		}
		return ts.Bool(a.X == bn.X)
	}
	x.unsupported(fmt.Sprintf("equal on %T", a))
	return nil
}

// isConcrete reports whether v contains no symbolic scalar.
func isConcrete(v Value) bool {
	switch v := v.(type) {
	case *Term:
		return v.IsConst()
	case Struct:
		for _, f := range v {
			if !isConcrete(f) {
				return false
			}
		}
	case Array:
		for _, f := range v {
			if !isConcrete(f) {
				return false
			}
		}
	case Str:
		return v.Conc
	case Iface:
		return v.T == nil || isConcrete(v.V)
	}
	return true
}

// describe renders a value for evidence samples and diagnostics.
func (x *Exec) describe(v Value, depth int) string {
	if depth <= 0 {
		return "…"
	}
	switch v := v.(type) {
	case *Term:
		return v.String()
	case Ptr:
		if v == nil {
			return "nil"
		}
		return fmt.Sprintf("&%p", v)
	case Str:
		if v.Conc {
			return fmt.Sprintf("%q", v.C)
		}
		return fmt.Sprintf("str[%d]", len(v.B))
	case Struct:
		var p []string
		for _, f := range v {
			p = append(p, x.describe(f, depth-1))
		}
		return "{" + strings.Join(p, " ") + "}"
	case Array:
		return fmt.Sprintf("array[%d]", len(v))
	case Slice:
		if v.Nil {
			return "nil-slice"
		}
		return fmt.Sprintf("slice[%d]", len(v.S))
	case Iface:
		if v.T == nil {
			return "nil-iface"
		}
		return v.T.String() + ":" + x.describe(v.V, depth-1)
	case *Map:
		if v == nil {
			return "nil-map"
		}
		return fmt.Sprintf("map#%d[%d]", v.id, len(v.ents))
	case *Closure:
		if v == nil {
			return "nil-func"
		}
		return v.Fn.String()
	case *ssa.Function:
		return v.String()
	}
	return fmt.Sprintf("%T", v)
}
