package engine

import (
	"fmt"
	"go/types"
	"os"
	"os/exec"
	"sort"
	"strings"
	"sync"
	"time"

	"golang.org/x/tools/go/ssa"
)

// Concurrency mode: interleavings as solver variables.
//
//  1. The harness entry runs once, concretely (the prelude builds the world and registers threads
//     with lib.VerifGo; real `go` statements inside threads add more threads).
//  2. Every thread is unfolded ALONE from the post-prelude heap: an access to a shared cell is an
//     event; a read returns, path by path, each value some thread may ever write there (candidate
//     sets are iterated to a fixpoint), so every event has a concrete address and value. Objects a
//     thread publishes through shared memory travel as snapshots (object universe = (thread, k-th
//     allocation)).
//  3. The unfoldings are merged into per-thread event trees and encoded in the partial-order style:
//     on(e), integer clock(e), program order, spawn order, read-from with "no write in between",
//     atomic read-modify-write. "Some assertion-violating leaf is on" is one SMT query over ALL
//     interleavings of the events in the unfolding; unsat = holds within the bounds.

type cEvent struct {
	kind  byte   // 'R' read, 'W' write, 'U' read-modify-write, 'S' spawn, 'X' marker
	addr  string // global cell id
	rval  string // value read (R, U)
	wval  string // value written (W, U)
	note  string
	child int // spawned thread id (S)
}

func (e cEvent) key() string {
	return fmt.Sprintf("%c|%s|%s|%s|%s|%d", e.kind, e.addr, e.rval, e.wval, e.note, e.child)
}

type cNode struct {
	id       int
	thr      *cThread
	ev       cEvent
	parent   *cNode
	children []*cNode
	byKey    map[string]*cNode
	bad      string // assertion tag violated at this node (leaf)
	end      string // "", "done", "blocked", "bad", "stopped"
	depth    int
}

type cThread struct {
	id       int
	name     string
	fn       Value
	args     []Value
	spawnKey string   // identity: parent thread + spawn position
	spawner  *cNode   // one node of the spawn event in the parent (nil for harness threads)
	spawners []*cNode // every node (on alternative parent paths) that spawns this thread
	root     *cNode
	paths    int
	observer bool
	harness  bool // registered by the harness prelude (as opposed to a `go` inside a thread)
}

type cSnapshot struct {
	obj   string // object identity
	val   Value  // deep copy of the object's content at publication
	t     types.Type
	inner map[string]*cSnapshot
}

// CMode is the state of one concurrency-mode analysis.
type CMode struct {
	x           *Exec
	guards      map[Ptr]*guardInfo // lock slot / sync.Map slot -> guarded object (lib.VerifGuarded)
	gsnaps      map[string]Value   // guarded states by content key
	deadThreads map[*cThread]bool  // threads left out of the encoding (their go statement does not exist in the final pass)
	threads     []*cThread
	byKey       map[string]*cThread
	cands       map[string][]string // cell -> candidate values (initial value first)
	candSet     map[string]map[string]bool
	writers     map[string]map[string]map[int]bool // cell -> value -> threads that write it (-1 = initial value)
	ownLast     map[string]string                  // per path: last value this thread wrote to a cell
	fCands      map[string][]string                // candidate sets frozen at the start of the pass
	fWriters    map[string]map[string]map[int]bool
	fShared     map[string]bool
	fObserved   map[string]bool
	pathCount   map[string]int
	initVal     map[string]string
	initSet     map[string]map[string]bool // cells of thread-allocated objects: contents at publication
	recording   map[Ptr]bool
	snaps       map[string]*cSnapshot // value key -> snapshot
	shared      map[string]bool       // cells touched by an atomic/shared op
	observed    map[string]bool       // cells whose value some thread looks at (Load/Swap/CAS)
	blindAdds   map[string]int
	changed     bool
	nodes       []*cNode
	preObj      map[Ptr]string // slot -> cell id (pre-existing objects get ids on demand)
	preSeq      int
	prelude     bool
	keyVals     map[string]Value

	// per path
	cur        *cThread
	events     []cEvent
	allocSeq   int
	slotID     map[Ptr]string // slots of objects allocated/materialised on this path
	localObj   map[string]Ptr // object id -> local root (materialised)
	pathBad    string
	pathEnd    string
	spawnSeq   int
	overrides  map[string]Value
	rp         *cReplay
	inOverride bool
	synth      map[string]Ptr

	Stats struct {
		Passes, Threads, Paths, Nodes, Reads, Writes int
		EncodeS, SolveS                              float64
		Result                                       string
		CutLeaves                                    int
		UnwindOK                                     bool
		Groups                                       int
		PlainSharedWrites                            map[string]int
	}
	Schedule []string
	BadTag   string
	Replayed string
}

// ---------------------------------------------------------------------------
// value keys and snapshots

func (cm *CMode) cellOf(p Ptr) string {
	if id, ok := cm.slotID[p]; ok {
		return id
	}
	if id, ok := cm.preObj[p]; ok {
		return id
	}
	cm.preSeq++
	id := fmt.Sprintf("pre%d", cm.preSeq)
	cm.preObj[p] = id
	return id
}

// isLocal reports whether p is a slot of an object allocated or materialised on the current path.
func (cm *CMode) isLocal(p Ptr) bool {
	_, ok := cm.slotID[p]
	return ok
}

// registerObj gives the slots of a freshly allocated (or materialised) object their cell ids.
func (cm *CMode) registerObj(root Ptr, obj string) {
	var walk func(p Ptr, id string)
	walk = func(p Ptr, id string) {
		cm.slotID[p] = id
		switch v := (*p).(type) {
		case Struct:
			for i := range v {
				walk(&v[i], fmt.Sprintf("%s.%d", id, i))
			}
		case Array:
			if len(v) <= 64 {
				for i := range v {
					walk(&v[i], fmt.Sprintf("%s[%d]", id, i))
				}
			}
		}
	}
	walk(root, obj)
}

// recordInit notes, for every field cell of a thread-allocated object that is being published, the
// value it holds at that moment: a later read of that cell by another thread may see it without any
// write event (the fields were initialised before the publishing write).
func (cm *CMode) recordInit(root Ptr, id string) {
	if cm.initSet == nil {
		cm.initSet = map[string]map[string]bool{}
	}
	if cm.recording == nil {
		cm.recording = map[Ptr]bool{}
	}
	if cm.recording[root] {
		return
	}
	cm.recording[root] = true
	defer delete(cm.recording, root)
	var walk func(v Value, cell string)
	walk = func(v Value, cell string) {
		switch vv := v.(type) {
		case Struct:
			for i, f := range vv {
				walk(f, fmt.Sprintf("%s.%d", cell, i))
			}
			return
		case Array:
			if len(vv) <= 64 {
				for i, f := range vv {
					walk(f, fmt.Sprintf("%s[%d]", cell, i))
				}
			}
			return
		}
		k := cm.keep(v)
		if cm.initSet[cell] == nil {
			cm.initSet[cell] = map[string]bool{}
		}
		if !cm.initSet[cell][k] {
			cm.initSet[cell][k] = true
			cm.changed = true
		}
	}
	walk(*root, id)
}

// valKey renders a concrete value as a string; thread-local objects reachable from it are
// snapshotted so that another thread can materialise them.
func (cm *CMode) valKey(v Value) string {
	x := cm.x
	switch v := v.(type) {
	case nil:
		return "nil"
	case *Term:
		if !v.IsConst() {
			x.unsupported("concurrency mode: symbolic value in a shared cell")
		}
		return fmt.Sprintf("i%d:%d", v.W, v.C)
	case Ptr:
		if v == nil {
			return "p:nil"
		}
		id := cm.cellOf(v)
		if !cm.isLocal(v) {
			return "p:" + id
		}
		// thread-local object: publish a snapshot of its current content
		snapKey := "p:" + id + "#" + cm.contentKey(*v, 0)
		if _, ok := cm.snaps[snapKey]; !ok {
			cm.snaps[snapKey] = &cSnapshot{obj: id, val: cm.deepCopyOut(*v)}
			if strings.HasPrefix(id, fmt.Sprintf("t%d.", cm.curID())) {
				// only the allocating thread's publication defines the initial field values
				cm.recordInit(v, id)
			}
		}
		return snapKey
	case Str:
		if !v.Conc {
			x.unsupported("concurrency mode: symbolic string in a shared cell")
		}
		return "s:" + v.C
	case Iface:
		if v.T == nil {
			return "f:nil"
		}
		return "f:" + v.T.String() + ":" + cm.valKey(v.V)
	case Struct:
		var p []string
		for _, f := range v {
			p = append(p, cm.valKey(f))
		}
		return "{" + strings.Join(p, ",") + "}"
	case Array:
		var p []string
		for _, f := range v {
			p = append(p, cm.valKey(f))
		}
		return "[" + strings.Join(p, ",") + "]"
	case Slice:
		if v.Nil {
			return "sl:nil"
		}
		var p []string
		for _, f := range v.S {
			p = append(p, cm.valKey(f))
		}
		return "sl[" + strings.Join(p, ",") + "]"
	case *Closure:
		if v == nil {
			return "fn:nil"
		}
		return "fn:" + v.Fn.String()
	case *ssa.Function:
		return "fn:" + v.String()
	case *Map:
		if v == nil {
			return "m:nil"
		}
		return fmt.Sprintf("m:%d", v.id)
	case *Chan:
		if v == nil {
			return "c:nil"
		}
		return fmt.Sprintf("c:%d", v.id)
	case Native:
		return fmt.Sprintf("n:%v", v.X)
	}
	x.unsupported(fmt.Sprintf("concurrency mode: value of kind %T in a shared cell", v))
	return ""
}

func (cm *CMode) contentKey(v Value, depth int) string {
	if depth > 6 {
		return "…"
	}
	switch v := v.(type) {
	case Ptr:
		if v == nil {
			return "p:nil"
		}
		if cm.isLocal(v) {
			return "L(" + cm.slotID[v] + ":" + cm.contentKey(*v, depth+1) + ")"
		}
		return "p:" + cm.cellOf(v)
	case Struct:
		var p []string
		for _, f := range v {
			p = append(p, cm.contentKey(f, depth+1))
		}
		return "{" + strings.Join(p, ",") + "}"
	case Array:
		var p []string
		for _, f := range v {
			p = append(p, cm.contentKey(f, depth+1))
		}
		return "[" + strings.Join(p, ",") + "]"
	case Iface:
		if v.T == nil {
			return "f:nil"
		}
		return "f:" + v.T.String() + ":" + cm.contentKey(v.V, depth+1)
	case *Term:
		if v.IsConst() {
			return fmt.Sprintf("%d", v.C)
		}
		return "sym"
	case Str:
		return "s:" + v.C
	case nil:
		return "nil"
	}
	return fmt.Sprintf("%T", v)
}

// snapVal is the form objects travel in: like Value, but pointers to thread-local objects are
// replaced by snapRef so that a reader can rebuild the graph in its own heap.
type snapRef struct {
	obj  string
	val  Value
	back bool // reference to an object already being copied (cycle)
}

func (cm *CMode) deepCopyOut(v Value) Value {
	return cm.copyOut(v, map[Ptr]bool{})
}

func (cm *CMode) copyOut(v Value, seen map[Ptr]bool) Value {
	switch v := v.(type) {
	case Ptr:
		if v != nil && cm.isLocal(v) {
			if seen[v] {
				return snapRef{obj: cm.slotID[v], back: true}
			}
			seen[v] = true
			return snapRef{obj: cm.slotID[v], val: cm.copyOut(*v, seen)}
		}
		return v
	case Struct:
		n := make(Struct, len(v))
		for i, f := range v {
			n[i] = cm.copyOut(f, seen)
		}
		return n
	case Array:
		n := make(Array, len(v))
		for i, f := range v {
			n[i] = cm.copyOut(f, seen)
		}
		return n
	case Iface:
		if v.T == nil {
			return v
		}
		return Iface{T: v.T, V: cm.copyOut(v.V, seen)}
	case Slice:
		if v.Nil {
			return v
		}
		n := make([]Value, len(v.S))
		for i, f := range v.S {
			n[i] = cm.copyOut(f, seen)
		}
		return Slice{S: n}
	case *Closure:
		if v == nil {
			return v
		}
		env := make([]Value, len(v.Env))
		for i, f := range v.Env {
			env[i] = cm.copyOut(f, seen)
		}
		return &Closure{Fn: v.Fn, Env: env}
	}
	return v
}

func (cm *CMode) deepCopyIn(v Value) Value {
	switch v := v.(type) {
	case snapRef:
		if p, ok := cm.localObj[v.obj]; ok {
			return p
		}
		if v.back {
			cm.x.unsupported("concurrency mode: dangling back reference in a snapshot")
		}
		nv := new(Value)
		cm.localObj[v.obj] = nv
		*nv = cm.deepCopyIn(v.val)
		cm.registerObj(nv, v.obj)
		return Ptr(nv)
	case Struct:
		n := make(Struct, len(v))
		for i, f := range v {
			n[i] = cm.deepCopyIn(f)
		}
		return n
	case Array:
		n := make(Array, len(v))
		for i, f := range v {
			n[i] = cm.deepCopyIn(f)
		}
		return n
	case Iface:
		if v.T == nil {
			return v
		}
		return Iface{T: v.T, V: cm.deepCopyIn(v.V)}
	case Slice:
		if v.Nil {
			return v
		}
		n := make([]Value, len(v.S))
		for i, f := range v.S {
			n[i] = cm.deepCopyIn(f)
		}
		return Slice{S: n}
	case *Closure:
		if v == nil {
			return v
		}
		env := make([]Value, len(v.Env))
		for i, f := range v.Env {
			env[i] = cm.deepCopyIn(f)
		}
		return &Closure{Fn: v.Fn, Env: env}
	}
	return v
}

// fromKey turns a candidate value key back into a value of the reading thread's heap.
func (cm *CMode) fromKey(key string, like Value) Value {
	x := cm.x
	switch {
	case key == "nil":
		return nil
	case strings.HasPrefix(key, "i"):
		var w int
		var c uint64
		fmt.Sscanf(key, "i%d:%d", &w, &c)
		if w == 0 {
			return x.ts.Bool(c == 1)
		}
		return x.ts.BV(c, w)
	case key == "p:nil":
		return Ptr(nil)
	case strings.HasPrefix(key, "p:"):
		if s, ok := cm.snaps[key]; ok {
			return cm.deepCopyIn(snapRef{obj: s.obj, val: s.val})
		}
		id := key[2:]
		for p, pid := range cm.preObj {
			if pid == id {
				return p
			}
		}
		// a cell of an object materialised on this path
		for p, pid := range cm.slotID {
			if pid == id {
				return p
			}
		}
		x.unsupported("concurrency mode: cannot resolve pointer value " + key)
	}
	if v, ok := cm.keyVals[key]; ok {
		return cm.deepCopyIn(v)
	}
	x.unsupported("concurrency mode: cannot rebuild value " + key)
	return nil
}

// ---------------------------------------------------------------------------
// events (called from the intrinsics while a thread is being unfolded)

func (cm *CMode) addCand(addr, val string) { cm.addCandBy(addr, val, cm.curID()) }

func (cm *CMode) curID() int {
	if cm.cur == nil || cm.prelude {
		return -1
	}
	return cm.cur.id
}

// choices returns the candidate values a read of addr may see on this path: everything some
// other thread (or the initial state) may have put there, and - once this thread has written the
// cell itself - its own last value instead of anything older of its own (coherence).
func (cm *CMode) choices(addr string) []string {
	cs := cm.fCands[addr]
	own, wrote := cm.ownLast[addr]
	if !wrote {
		return cs
	}
	me := cm.curID()
	var out []string
	for _, c := range cs {
		if c == own {
			out = append(out, c)
			continue
		}
		for w := range cm.fWriters[addr][c] {
			if w != me && w != -1 {
				out = append(out, c)
				break
			}
		}
	}
	if len(out) == 0 {
		out = append(out, own)
	}
	return out
}

func (cm *CMode) addCandBy(addr, val string, who int) {
	if cm.writers == nil {
		cm.writers = map[string]map[string]map[int]bool{}
	}
	if cm.writers[addr] == nil {
		cm.writers[addr] = map[string]map[int]bool{}
	}
	if cm.writers[addr][val] == nil {
		cm.writers[addr][val] = map[int]bool{}
	}
	if !cm.writers[addr][val][who] {
		cm.writers[addr][val][who] = true
		cm.changed = true
	}
	if cm.candSet[addr] == nil {
		cm.candSet[addr] = map[string]bool{}
	}
	if !cm.candSet[addr][val] {
		cm.candSet[addr][val] = true
		cm.cands[addr] = append(cm.cands[addr], val)
		cm.changed = true
		if os.Getenv("GOSYM_DEBUG") == "2" {
			fmt.Fprintf(os.Stderr, "CAND pass=%d %s += %s\n", cm.Stats.Passes, addr, shortVal(val))
		}
	}
}

func (cm *CMode) noteInit(addr string, p Ptr) {
	if _, ok := cm.initVal[addr]; ok {
		return
	}
	if cm.isLocal(p) {
		// a cell of an object created by some thread: its first value is whatever the snapshot holds
		return
	}
	k := cm.keep(*p)
	cm.initVal[addr] = k
	cm.addCandBy(addr, k, -1)
}

// keep computes the key of a value and remembers the value itself for non-scalar keys.
func (cm *CMode) keep(v Value) string {
	k := cm.valKey(v)
	switch v.(type) {
	case *Term, Ptr, nil:
	default:
		if _, ok := cm.keyVals[k]; !ok {
			cm.keyVals[k] = cm.deepCopyOut(v)
		}
	}
	return k
}

// readOnly: the only value ever seen in the cell is its initial one.
func (cm *CMode) readOnly(addr string) bool {
	ws := cm.fWriters[addr]
	if len(ws) != 1 {
		return false
	}
	for _, who := range ws {
		if len(who) == 1 && who[-1] {
			return true
		}
	}
	return false
}

// sharedCAS: compare-and-swap as two outcomes - it reads `old` and writes nv, or it reads
// "something else" (one event whatever the other value is).
func (cm *CMode) sharedCAS(p Ptr, old, nv Value, note string) bool {
	x := cm.x
	if cm.rp != nil {
		cm.gate('U', cm.cellOf(p))
		if x.equal(nil, *p, old).IsTrue() {
			x.store(p, copyVal(nv))
			return true
		}
		return false
	}
	cm.budget()
	addr := cm.cellOf(p)
	cm.shared[addr] = true
	cm.noteInit(addr, p)
	oldK := cm.keep(old)
	cs := cm.readChoices(addr, p)
	canHit, canMiss := false, false
	for _, c := range cs {
		if c == oldK {
			canHit = true
		} else {
			canMiss = true
		}
	}
	var hit bool
	switch {
	case canHit && canMiss:
		hit = x.ChooseN(2, addr) == 0
	case canHit:
		hit = true
	default:
		hit = false
	}
	if hit {
		k := cm.keep(nv)
		cm.addCand(addr, k)
		cm.ownLast[addr] = k
		cm.events = append(cm.events, cEvent{kind: 'U', addr: addr, rval: oldK, wval: k, note: note})
		x.store(p, copyVal(nv))
		return true
	}
	cm.events = append(cm.events, cEvent{kind: 'N', addr: addr, rval: oldK, note: note})
	return false
}

// freeze copies the candidate sets: within one pass every thread path sees the same sets, so that
// re-execution of a decision prefix is deterministic; additions become visible in the next pass.
func (cm *CMode) freeze() {
	cm.fCands = map[string][]string{}
	for k, v := range cm.cands {
		cm.fCands[k] = append([]string{}, v...)
	}
	cm.fWriters = map[string]map[string]map[int]bool{}
	for a, m := range cm.writers {
		cm.fWriters[a] = map[string]map[int]bool{}
		for v, ws := range m {
			cm.fWriters[a][v] = map[int]bool{}
			for w := range ws {
				cm.fWriters[a][v][w] = true
			}
		}
	}
	cm.fShared = map[string]bool{}
	for k := range cm.shared {
		cm.fShared[k] = true
	}
	cm.fObserved = map[string]bool{}
	for k := range cm.observed {
		cm.fObserved[k] = true
	}
}

// readChoices: the frozen candidates for addr as this path may see them; the value the cell holds in
// this thread's own heap is always one of them (first access of a cell, objects that arrived by
// snapshot).
func (cm *CMode) readChoices(addr string, p Ptr) []string {
	cs := cm.choices(addr)
	cur := cm.keep(*p)
	if _, wrote := cm.ownLast[addr]; !wrote {
		found := false
		for _, c := range cs {
			if c == cur {
				found = true
			}
		}
		if !found && (cm.isLocal(p) || len(cs) == 0) {
			cs = append(append([]string{}, cs...), cur)
			cm.addCandBy(addr, cur, -1)
		}
	}
	if len(cs) == 0 {
		cs = []string{cur}
	}
	return cs
}

// budget cuts a thread path that has produced too many events (the unwinding bound of this mode).
func (cm *CMode) budget() {
	max := int(cm.x.cfg.Params["cmdepth"])
	if max == 0 {
		max = 40
	}
	if len(cm.events) >= max {
		panic(pathEnd{kind: "cm-cut", msg: "event budget"})
	}
}

// sharedRead returns the value this path reads from cell p (forking over the candidates).
func (cm *CMode) sharedRead(p Ptr, note string) Value {
	x := cm.x
	if cm.rp != nil {
		addr := cm.cellOf(p)
		if cm.readOnly(addr) {
			return copyVal(*p)
		}
		n := cm.gate('R', addr)
		if k := cm.valKey(*p); k != n.ev.rval && n.ev.kind == 'R' {
			cm.rp.diverge = fmt.Sprintf("step %d: %s holds %s, the model read %s", cm.rp.pos-1, addr, shortVal(k), shortVal(n.ev.rval))
		}
		return copyVal(*p)
	}
	cm.budget()
	addr := cm.cellOf(p)
	cm.shared[addr] = true
	cm.noteInit(addr, p)
	cs := cm.readChoices(addr, p)
	if cm.readOnly(addr) {
		// nobody ever writes this cell: its value is a constant, not an event
		return copyVal(*p)
	}
	i := x.ChooseN(len(cs), addr)
	val := cs[i]
	cm.events = append(cm.events, cEvent{kind: 'R', addr: addr, rval: val, note: note})
	v := cm.fromKey(val, *p)
	// keep the local heap coherent with what was read
	x.store(p, v)
	return copyVal(v)
}

func (cm *CMode) sharedWrite(p Ptr, v Value, note string) {
	if cm.rp != nil {
		cm.gate('W', cm.cellOf(p))
		cm.x.store(p, copyVal(v))
		return
	}
	addr := cm.cellOf(p)
	cm.shared[addr] = true
	cm.noteInit(addr, p)
	k := cm.keep(v)
	cm.addCand(addr, k)
	cm.ownLast[addr] = k
	cm.events = append(cm.events, cEvent{kind: 'W', addr: addr, wval: k, note: note})
	cm.x.store(p, copyVal(v))
}

// sharedRMW reads cell p (forking) and writes f(old); ok=false means "no write" (failed CAS).
func (cm *CMode) sharedRMW(p Ptr, note string, f func(old Value) (Value, bool)) Value {
	x := cm.x
	if cm.rp != nil {
		cm.gate('U', cm.cellOf(p))
		old := copyVal(*p)
		if nv, ok := f(copyVal(old)); ok {
			x.store(p, copyVal(nv))
		}
		return old
	}
	cm.budget()
	addr := cm.cellOf(p)
	cm.shared[addr] = true
	cm.noteInit(addr, p)
	cs := cm.readChoices(addr, p)
	i := x.ChooseN(len(cs), addr)
	val := cs[i]
	old := cm.fromKey(val, *p)
	nv, ok := f(copyVal(old))
	if !ok {
		cm.events = append(cm.events, cEvent{kind: 'R', addr: addr, rval: val, note: note})
		x.store(p, old)
		return old
	}
	k := cm.keep(nv)
	cm.addCand(addr, k)
	cm.ownLast[addr] = k
	cm.events = append(cm.events, cEvent{kind: 'U', addr: addr, rval: val, wval: k, note: note})
	x.store(p, copyVal(nv))
	return old
}

// ---------------------------------------------------------------------------
// driver

// ChooseN is a pure enumeration decision (no solver): this path takes alternative i of n.
func (x *Exec) ChooseN(n int, what string) int {
	if n <= 1 {
		return 0
	}
	if x.pos < len(x.dec) {
		d := x.dec[x.pos]
		if d.kind != 'n' {
			panic(pathEnd{kind: "internal", msg: "replay divergence in ChooseN " + what + x.whereAmI()})
		}
		x.pos++
		if int(d.val) >= n {
			// the candidate set grew since: harmless, but cannot happen within one pass
			panic(pathEnd{kind: "internal", msg: "candidate index out of range " + what})
		}
		return int(d.val)
	}
	if len(x.dec) >= x.cfg.MaxDecisions {
		panic(pathEnd{kind: "unwind", msg: fmt.Sprintf("decision bound %d reached (%s)", x.cfg.MaxDecisions, what) + x.whereAmI()})
	}
	x.dec = append(x.dec, decision{kind: 'n', val: 0, alt: n > 1, nAlt: n})
	x.pos++
	return 0
}

// RunConcurrent performs the whole concurrency-mode analysis of one harness entry.
func (x *Exec) RunConcurrent(entry *ssa.Function) *CMode {
	cm := &CMode{x: x, byKey: map[string]*cThread{}, cands: map[string][]string{}, candSet: map[string]map[string]bool{},
		initVal: map[string]string{}, observed: map[string]bool{}, blindAdds: map[string]int{}, snaps: map[string]*cSnapshot{}, shared: map[string]bool{}, preObj: map[Ptr]string{},
		keyVals: map[string]Value{}, overrides: map[string]Value{}}
	cm.Stats.PlainSharedWrites = map[string]int{}
	x.cm = cm

	// 1. prelude: the entry runs once, concretely; its effects stay (journal is kept, undone at the end)
	x.resetPath()
	x.dec = nil
	x.journalOn = true
	x.journal = x.journal[:0]
	cm.slotID = map[Ptr]string{}
	cm.localObj = map[string]Ptr{}
	cm.ownLast = map[string]string{}
	cm.prelude = true
	pe := x.runThreadBody(entry, nil)
	cm.prelude = false
	preludeJournal := x.journal
	x.journal = nil
	defer func() {
		for i := len(preludeJournal) - 1; i >= 0; i-- {
			preludeJournal[i]()
		}
		x.journalOn = false
		x.cm = nil
	}()
	if pe.kind != "done" {
		x.note("concurrency prelude did not complete: " + pe.kind + ": " + pe.msg)
		cm.Stats.Result = "inconclusive"
		return cm
	}
	if len(cm.threads) == 0 {
		x.note("concurrency harness registered no thread")
		cm.Stats.Result = "inconclusive"
		return cm
	}

	// 2. unfold to a fixpoint of the candidate sets
	for pass := 1; pass <= 12; pass++ {
		cm.Stats.Passes = pass
		cm.changed = false
		cm.freeze()
		for i := 0; i < len(cm.threads); i++ { // threads may be added while iterating
			t := cm.threads[i]
			t.root = nil
			t.paths = 0
			t.spawner = nil
			t.spawners = nil
		}
		cm.nodes = nil
		for i := 0; i < len(cm.threads); i++ {
			if !cm.unfold(cm.threads[i]) {
				cm.Stats.Result = "inconclusive"
				return cm
			}
		}
		if !cm.changed {
			break
		}
		if pass == 12 {
			x.note("concurrency mode: candidate sets did not stabilise in 12 passes")
			cm.Stats.Result = "inconclusive"
			return cm
		}
	}
	cm.Stats.Threads = len(cm.threads)
	cm.Stats.Nodes = len(cm.nodes)
	for _, t := range cm.threads {
		cm.Stats.Paths += t.paths
	}

	// 3. encode and solve
	cm.solve()
	return cm
}

// runThreadBody runs fn(args) as goroutine 0 of a fresh scheduler and returns how it ended.
func (x *Exec) runThreadBody(fn Value, args []Value) pathEnd {
	x.pathDone = make(chan pathEnd, 1)
	x.gs = nil
	x.aborting = false
	g0 := x.spawn(fn, args, "thread")
	g0.started = true
	x.cur = g0
	x.wg.Add(1)
	go x.gMain(g0)
	g0.wake <- struct{}{}
	pe := <-x.pathDone
	x.aborting = true
	for _, g := range x.gs {
		if g.started && !g.done {
			select {
			case g.wake <- struct{}{}:
			default:
			}
		}
	}
	x.wg.Wait()
	x.aborting = false
	return pe
}

// unfold explores every path of thread t under the current candidate sets and merges them
// into t's event tree.
func (cm *CMode) unfold(t *cThread) bool {
	x := cm.x
	x.dec = nil
	deadline := x.cfg.Deadline
	for {
		if !deadline.IsZero() && time.Now().After(deadline) {
			x.note("deadline during unfolding")
			return false
		}
		// one path
		x.pos = 0
		x.steps = 0
		x.depth = 0
		x.symN = map[string]int{}
		x.locks = map[Ptr]*lockState{}
		x.timers = nil
		x.journal = x.journal[:0]
		cm.cur = t
		cm.events = nil
		cm.slotID = map[Ptr]string{}
		cm.localObj = map[string]Ptr{}
		cm.allocSeq = 0
		cm.spawnSeq = 0
		cm.pathBad = ""
		cm.pathEnd = ""
		cm.ownLast = map[string]string{}
		cm.pathCount = nil
		args := make([]Value, len(t.args))
		for i, a := range t.args {
			args[i] = cm.deepCopyIn(a)
		}
		fn := cm.deepCopyIn(t.fn)
		pe := x.runThreadBody(fn, args)
		// undo the path's effects on the shared heap
		for i := len(x.journal) - 1; i >= 0; i-- {
			x.journal[i]()
		}
		x.journal = x.journal[:0]
		t.paths++
		if t.paths > x.cfg.MaxPaths {
			x.note(fmt.Sprintf("concurrency mode: thread %s has more than %d paths", t.name, x.cfg.MaxPaths))
			return false
		}
		end := "done"
		switch pe.kind {
		case "done":
		case "cm-bad":
			end = "bad"
		case "cm-blocked", "hang":
			end = "blocked"
		case "cm-cut":
			end = "cut"
		case "panic", "panic-goroutine":
			end = "bad"
			cm.pathBad = "uncaught " + firstLine(pe.msg)
		default:
			x.note("concurrency mode: thread " + t.name + ": " + pe.kind + ": " + pe.msg)
			return false
		}
		cm.merge(t, cm.events, end, cm.pathBad)
		if x.cfg.Trace {
			fmt.Fprintf(os.Stderr, "  thread %s path %d: %s (%d events) %s\n", t.name, t.paths, end, len(cm.events), cm.pathBad)
		}
		// next alternative
		i := len(x.dec) - 1
		for i >= 0 {
			d := x.dec[i]
			if int(d.val)+1 < d.nAlt {
				x.dec = append(x.dec[:i:i], decision{kind: 'n', val: d.val + 1, nAlt: d.nAlt})
				break
			}
			i--
		}
		if i < 0 {
			return true
		}
	}
}

func (cm *CMode) newNode(t *cThread, parent *cNode, ev cEvent) *cNode {
	n := &cNode{id: len(cm.nodes), thr: t, ev: ev, parent: parent, byKey: map[string]*cNode{}}
	if parent != nil {
		n.depth = parent.depth + 1
	}
	cm.nodes = append(cm.nodes, n)
	return n
}

func (cm *CMode) merge(t *cThread, evs []cEvent, end, bad string) {
	if t.root == nil {
		t.root = cm.newNode(t, nil, cEvent{kind: 'X', note: "start " + t.name})
	}
	cur := t.root
	for _, e := range evs {
		k := e.key()
		nx := cur.byKey[k]
		if nx == nil {
			nx = cm.newNode(t, cur, e)
			cur.byKey[k] = nx
			cur.children = append(cur.children, nx)
		}
		if e.kind == 'S' {
			ct := cm.threads[e.child]
			ct.spawner = nx
			dup := false
			for _, o := range ct.spawners {
				if o == nx {
					dup = true
				}
			}
			if !dup {
				ct.spawners = append(ct.spawners, nx)
			}
		}
		cur = nx
	}
	// terminal marker
	k := "end|" + end + "|" + bad
	nx := cur.byKey[k]
	if nx == nil {
		nx = cm.newNode(t, cur, cEvent{kind: 'X', note: "end:" + end})
		nx.end = end
		nx.bad = bad
		cur.byKey[k] = nx
		cur.children = append(cur.children, nx)
	}
}

// spawnThread registers (or finds) the thread started by a `go` statement or lib.VerifGo.
func (cm *CMode) spawnThread(name string, fn Value, args []Value, observer bool) *cThread {
	key := fmt.Sprintf("%s#%d", name, len(cm.threads))
	if cm.prelude {
		name = key
	}
	if !cm.prelude {
		cm.spawnSeq++
		key = fmt.Sprintf("%s>%d:%s", cm.cur.spawnKey, len(cm.events), name)
	}
	if t, ok := cm.byKey[key]; ok {
		return t
	}
	t := &cThread{id: len(cm.threads), name: name, spawnKey: key, observer: observer, harness: cm.prelude}
	if cm.prelude {
		t.fn = fn
		t.args = args
	} else {
		t.fn = cm.deepCopyOut(fn)
		for _, a := range args {
			t.args = append(t.args, cm.deepCopyOut(a))
		}
		t.name = fmt.Sprintf("%s/%s", cm.cur.name, name)
	}
	cm.threads = append(cm.threads, t)
	cm.byKey[key] = t
	cm.changed = true
	return t
}

// ---------------------------------------------------------------------------
// encoding

func (cm *CMode) solve() {
	x := cm.x
	t0 := time.Now()
	var sb strings.Builder
	w := func(f string, a ...interface{}) { fmt.Fprintf(&sb, f+"\n", a...) }
	on := func(n *cNode) string { return fmt.Sprintf("on%d", n.id) }
	ck := func(n *cNode) string { return fmt.Sprintf("c%d", n.id) }

	// threads of an earlier unfolding pass whose `go` does not exist any more can never run: leave
	// their nodes out of the encoding altogether (they would only be constrained to "off")
	{
		dead := map[*cThread]bool{}
		for _, t := range cm.threads {
			if t.root != nil && !t.observer && !t.harness && t.spawner == nil {
				dead[t] = true
			}
		}
		if len(dead) > 0 {
			var keep []*cNode
			for _, n := range cm.nodes {
				if !dead[n.thr] {
					keep = append(keep, n)
				}
			}
			cm.nodes = keep
		}
		cm.deadThreads = dead
	}

	for _, n := range cm.nodes {
		w("(declare-const %s Bool)", on(n))
		w("(declare-const %s Int)", ck(n))
		w("(assert (>= %s 0))", ck(n))
	}
	// tree structure and program order
	for _, n := range cm.nodes {
		if n.parent != nil {
			w("(assert (=> %s %s))", on(n), on(n.parent))
			w("(assert (=> %s (< %s %s)))", on(n), ck(n.parent), ck(n))
		}
		// at most one child
		for i := 0; i < len(n.children); i++ {
			for j := i + 1; j < len(n.children); j++ {
				w("(assert (not (and %s %s)))", on(n.children[i]), on(n.children[j]))
			}
		}
	}
	// thread start
	for _, t := range cm.threads {
		if t.root == nil {
			continue
		}
		if os.Getenv("GOSYM_DEBUG") != "" {
			sp := -1
			if t.spawner != nil {
				sp = t.spawner.id
			}
			fmt.Fprintf(os.Stderr, "THREAD T%d %s root=%d spawner=%d harness=%v key=%s\n", t.id, t.name, t.root.id, sp, t.harness, t.spawnKey)
		}
		switch {
		case t.observer:
		case t.harness:
			// harness threads may or may not have started (prefix-closed executions)
		case t.spawner == nil:
			// a thread of an earlier unfolding pass whose `go` does not exist any more: its nodes
			// were left out above
		default:
			var alts []string
			for _, sp := range t.spawners {
				alts = append(alts, fmt.Sprintf("(and %s (< %s %s))", on(sp), ck(sp), ck(t.root)))
			}
			w("(assert (=> %s (or %s)))", on(t.root), strings.Join(alts, " "))
		}
	}
	// accesses per address
	type acc struct {
		n *cNode
	}
	reads := map[string][]*cNode{}
	writes := map[string][]*cNode{}
	for _, n := range cm.nodes {
		switch n.ev.kind {
		case 'R', 'N':
			reads[n.ev.addr] = append(reads[n.ev.addr], n)
			cm.Stats.Reads++
		case 'W':
			writes[n.ev.addr] = append(writes[n.ev.addr], n)
			cm.Stats.Writes++
		case 'U':
			reads[n.ev.addr] = append(reads[n.ev.addr], n)
			writes[n.ev.addr] = append(writes[n.ev.addr], n)
			cm.Stats.Reads++
			cm.Stats.Writes++
		}
	}
	excl := func(a, b *cNode) bool { // can a and b both be on? (same thread: one must be an ancestor of the other)
		if a.thr != b.thr {
			return false
		}
		x, y := a, b
		if x.depth > y.depth {
			x, y = y, x
		}
		for y.depth > x.depth {
			y = y.parent
		}
		return x != y
	}
	ancestor := func(a, b *cNode) bool { // a is a proper ancestor of b
		if a.thr != b.thr || a.depth >= b.depth {
			return false
		}
		y := b
		for y.depth > a.depth {
			y = y.parent
		}
		return y == a
	}
	nrf := 0
	for addr, rs := range reads {
		ws := writes[addr]
		// distinct clocks for writes of different threads to one address
		for i := 0; i < len(ws); i++ {
			for j := i + 1; j < len(ws); j++ {
				if ws[i].thr != ws[j].thr {
					w("(assert (=> (and %s %s) (not (= %s %s))))", on(ws[i]), on(ws[j]), ck(ws[i]), ck(ws[j]))
				}
			}
		}
		for _, r := range rs {
			matches := func(v string) bool {
				if r.ev.kind == 'N' {
					return v != r.ev.rval
				}
				return v == r.ev.rval
			}
			// s_r: clock of the write this read takes its value from (-1: the initial value)
			sr := fmt.Sprintf("s%d", r.id)
			w("(declare-const %s Int)", sr)
			var alts []string
			initOK := false
			if iv, ok := cm.initVal[addr]; ok && matches(iv) {
				initOK = true
			}
			for iv := range cm.initSet[addr] {
				if matches(iv) {
					initOK = true
				}
			}
			if initOK {
				alts = append(alts, fmt.Sprintf("(= %s (- 1))", sr))
			}
			for _, src := range ws {
				if src == r || excl(src, r) || ancestor(r, src) {
					continue
				}
				// every write that is on and before r is not later than the source
				w("(assert (=> (and %s %s (< %s %s)) (<= %s %s)))", on(r), on(src), ck(src), ck(r), ck(src), sr)
				if matches(src.ev.wval) {
					nrf++
					alts = append(alts, fmt.Sprintf("(and %s (< %s %s) (= %s %s))", on(src), ck(src), ck(r), sr, ck(src)))
				}
			}
			if len(alts) == 0 {
				if os.Getenv("GOSYM_DEBUG") != "" {
					fmt.Fprintf(os.Stderr, "NOSRC node %d thread %s %c %s rval=%s init=%s\n", r.id, r.thr.name, r.ev.kind, r.ev.addr, shortVal(r.ev.rval), shortVal(cm.initVal[addr]))
				}
				w("(assert (not %s))", on(r))
			} else {
				w("(assert (=> %s (or %s)))", on(r), strings.Join(alts, " "))
			}
		}
	}
	w("(assert true) ; %d read-from alternatives", nrf)
	// quiescence for observer threads: everything that started has finished
	for _, t := range cm.threads {
		if !t.observer || t.root == nil {
			continue
		}
		for _, n := range cm.nodes {
			if n.thr.observer {
				continue
			}
			w("(assert (=> %s (=> %s (< %s %s))))", on(t.root), on(n), ck(n), ck(t.root))
			if n.end == "" {
				// an inner node that is on must have a child on
				var ch []string
				for _, c := range n.children {
					ch = append(ch, on(c))
				}
				if len(ch) > 0 {
					w("(assert (=> (and %s %s) (or %s)))", on(t.root), on(n), strings.Join(ch, " "))
				}
			}
			if n.end == "blocked" {
				w("(assert (=> %s (not %s)))", on(t.root), on(n))
			}
			if n.ev.kind == 'S' {
				ct := cm.threads[n.ev.child]
				if ct.root != nil {
					w("(assert (=> (and %s %s) %s))", on(t.root), on(n), on(ct.root))
				}
			}
		}
		// harness threads all ran
		for _, o := range cm.threads {
			if o.harness && !o.observer && o.root != nil {
				w("(assert (=> %s %s))", on(t.root), on(o.root))
			}
		}
	}
	// the question: is some violating leaf reachable?
	var bads, cuts []string
	for _, n := range cm.nodes {
		if n.bad != "" {
			bads = append(bads, on(n))
			if os.Getenv("GOSYM_DEBUG") != "" {
				// the path to this leaf
				var evs []string
				for a := n; a != nil; a = a.parent {
					evs = append([]string{fmt.Sprintf("%d:%c %s r=%s w=%s", a.id, a.ev.kind, a.ev.addr, shortVal(a.ev.rval), shortVal(a.ev.wval))}, evs...)
				}
				fmt.Fprintf(os.Stderr, "BADLEAF %d thread %s (T%d) %s :: %s\n", n.id, n.thr.name, n.thr.id, n.bad, strings.Join(evs, " | "))
			}
		}
		if n.end == "cut" {
			cuts = append(cuts, on(n))
		}
	}
	cm.Stats.CutLeaves = len(cuts)
	base := sb.String()
	if len(cuts) > 0 {
		// unwinding check: can any interleaving run a thread past its event budget?
		t1 := time.Now()
		res := cm.ask(base + fmt.Sprintf("(assert (or %s))\n(check-sat)\n", strings.Join(cuts, " ")))
		cm.Stats.SolveS += time.Since(t1).Seconds()
		switch res {
		case "unsat":
			cm.Stats.UnwindOK = true
		case "sat":
			x.note("concurrency mode: some interleaving runs a thread past its event budget (cmdepth): bound too small")
		default:
			x.note("concurrency mode: unwinding check answered " + oneLineStr(res))
		}
	} else {
		cm.Stats.UnwindOK = true
	}
	cm.Stats.EncodeS = time.Since(t0).Seconds()
	if len(bads) == 0 {
		cm.Stats.Result = "unsat"
		if !cm.Stats.UnwindOK {
			cm.Stats.Result = "unsat-but-unwinding-bound-hit"
		}
		return
	}
	// The violating leaves are split into groups decided by parallel solver processes over the same
	// constraint system: all groups unsat = no violating leaf is reachable; any group sat = a schedule.
	groups := x.cfg.CPar
	if groups <= 0 {
		groups = 12
	}
	if groups > len(bads) {
		groups = len(bads)
	}
	if p := os.Getenv("GOSYM_SMTLOG"); p != "" {
		os.WriteFile(p+".cmode.smt2", []byte(base+fmt.Sprintf("(assert (or %s))\n(check-sat)\n(get-model)\n", strings.Join(bads, " "))), 0o644)
	}
	t1 := time.Now()
	outs := make([]string, groups)
	var wg sync.WaitGroup
	for g := 0; g < groups; g++ {
		var lits []string
		for i := g; i < len(bads); i += groups {
			lits = append(lits, bads[i])
		}
		wg.Add(1)
		go func(g int, lits []string) {
			defer wg.Done()
			f, _ := os.CreateTemp("", "gosym-cm-*.smt2")
			f.WriteString(base)
			fmt.Fprintf(f, "(assert (or %s))\n(check-sat)\n(get-model)\n", strings.Join(lits, " "))
			f.Close()
			defer os.Remove(f.Name())
			outs[g] = runSolverFile(x.cfg.CSolver, f.Name(), x.cfg.CTimeoutS)
		}(g, lits)
	}
	wg.Wait()
	cm.Stats.SolveS += time.Since(t1).Seconds()
	cm.Stats.Groups = groups
	x.solver.Queries += groups
	x.solver.Seconds += time.Since(t1).Seconds()
	out := ""
	allUnsat := true
	for _, o := range outs {
		fl := firstLineOf(o)
		if fl == "sat" {
			out = o
			allUnsat = false
			break
		}
		if fl != "unsat" {
			allUnsat = false
			if out == "" {
				out = o
			}
		}
	}
	if allUnsat {
		out = "unsat"
	}
	first := strings.TrimSpace(out)
	if i := strings.IndexByte(first, '\n'); i >= 0 {
		first = first[:i]
	}
	switch first {
	case "unsat":
		cm.Stats.Result = "unsat"
		if !cm.Stats.UnwindOK {
			cm.Stats.Result = "unsat-but-unwinding-bound-hit"
		}
		x.solver.NUnsat++
	case "sat":
		cm.Stats.Result = "sat"
		x.solver.NSat++
		sel := cm.extract(out)
		failed, why := cm.replaySchedule(sel)
		if failed != "" {
			cm.Replayed = "confirmed: the interpreted real code, run under this schedule, fails: " + failed
		} else {
			cm.Replayed = "not reproduced: " + why
		}
	default:
		cm.Stats.Result = "unknown"
		x.solver.NUnknown++
		x.note("concurrency query: solver answered " + oneLineStr(first))
	}
}

func oneLineStr(s string) string {
	if len(s) > 200 {
		s = s[:200]
	}
	return strings.ReplaceAll(s, "\n", " ")
}

// extract reads the schedule (events that are on, sorted by clock) from a z3 model.
func (cm *CMode) extract(out string) []*cNode {
	onv := map[int]bool{}
	clk := map[int]int64{}
	lines := strings.Split(out, "\n")
	for i := 0; i+1 < len(lines); i++ {
		l := strings.TrimSpace(lines[i])
		if !strings.HasPrefix(l, "(define-fun ") {
			continue
		}
		parts := strings.Fields(l)
		if len(parts) < 2 {
			continue
		}
		name := parts[1]
		val := strings.TrimSpace(lines[i+1])
		val = strings.TrimSuffix(val, ")")
		if len(parts) >= 5 { // value on the same line
			val = strings.TrimSuffix(strings.Join(parts[4:], " "), ")")
		}
		var id int
		if n, _ := fmt.Sscanf(name, "on%d", &id); n == 1 && strings.HasPrefix(name, "on") {
			onv[id] = strings.Contains(val, "true")
		} else if n, _ := fmt.Sscanf(name, "c%d", &id); n == 1 && strings.HasPrefix(name, "c") && !strings.HasPrefix(name, "cm") {
			v := strings.Trim(val, "() ")
			neg := false
			if strings.HasPrefix(v, "- ") {
				neg = true
				v = strings.TrimPrefix(v, "- ")
			}
			var k int64
			fmt.Sscanf(v, "%d", &k)
			if neg {
				k = -k
			}
			clk[id] = k
		}
	}
	var sel []*cNode
	for _, n := range cm.nodes {
		if onv[n.id] {
			sel = append(sel, n)
			if n.bad != "" {
				cm.BadTag = n.bad
			}
		}
	}
	// equal clocks occur only between events of different threads that the constraints leave
	// unordered; a read that shares its clock with a write of the same cell was constrained as if it
	// came first ("writes strictly before the read" count), so reads go before writes on ties
	rank := func(n *cNode) int {
		switch n.ev.kind {
		case 'R', 'N':
			return 0
		case 'W', 'U':
			return 2
		}
		return 1
	}
	sort.SliceStable(sel, func(i, j int) bool {
		ci, cj := clk[sel[i].id], clk[sel[j].id]
		if ci != cj {
			return ci < cj
		}
		return rank(sel[i]) < rank(sel[j])
	})
	for _, n := range sel {
		e := n.ev
		switch e.kind {
		case 'R':
			cm.Schedule = append(cm.Schedule, fmt.Sprintf("T%d %-28s read  %s = %s  %s", n.thr.id, n.thr.name, e.addr, shortVal(e.rval), e.note))
		case 'N':
			cm.Schedule = append(cm.Schedule, fmt.Sprintf("%-28s read  %s != %s  %s", n.thr.name, e.addr, shortVal(e.rval), e.note))
		case 'W':
			cm.Schedule = append(cm.Schedule, fmt.Sprintf("%-28s write %s := %s  %s", n.thr.name, e.addr, shortVal(e.wval), e.note))
		case 'U':
			cm.Schedule = append(cm.Schedule, fmt.Sprintf("%-28s rmw   %s: %s -> %s  %s", n.thr.name, e.addr, shortVal(e.rval), shortVal(e.wval), e.note))
		case 'S':
			cm.Schedule = append(cm.Schedule, fmt.Sprintf("T%d %-28s go    T%d %s", n.thr.id, n.thr.name, e.child, cm.threads[e.child].name))
		default:
			if n.bad != "" {
				cm.Schedule = append(cm.Schedule, fmt.Sprintf("%-28s VIOLATION %s", n.thr.name, n.bad))
			}
		}
	}
	return sel
}

func shortVal(s string) string {
	if len(s) > 60 {
		return s[:60] + "…"
	}
	return s
}

// cmSolverSlots bounds the number of solver processes that concurrency-mode queries of one gosym
// process run at the same time (each can take several GB on the larger encodings).
var cmSolverSlots = make(chan struct{}, 10)

// runSolverFile runs one solver process on a script file.
func runSolverFile(solver, file string, timeoutS int) string {
	cmSolverSlots <- struct{}{}
	defer func() { <-cmSolverSlots }()
	if timeoutS <= 0 {
		timeoutS = 600
	}
	var argv []string
	switch solver {
	case "cvc5":
		argv = []string{"cvc5", "--produce-models", "--lang", "smt2", fmt.Sprintf("--tlimit=%d", timeoutS*1000), file}
	case "z3new":
		argv = []string{"z3-new", fmt.Sprintf("-T:%d", timeoutS), file}
	default:
		argv = []string{"z3", fmt.Sprintf("-T:%d", timeoutS), file}
	}
	out, _ := exec.Command(argv[0], argv[1:]...).CombinedOutput()
	return string(out)
}

// ---------------------------------------------------------------------------
// hooks used by the interpreter and the intrinsics

func (cm *CMode) active() bool { return cm != nil && !cm.prelude }

func (cm *CMode) isSharedCell(p Ptr) bool {
	if id, ok := cm.slotID[p]; ok {
		return cm.fShared[id]
	}
	if id, ok := cm.preObj[p]; ok {
		return cm.fShared[id]
	}
	return false
}

func (cm *CMode) markObserved(p Ptr) {
	id := cm.cellOf(p)
	if !cm.observed[id] {
		cm.observed[id] = true
		cm.changed = true
	}
}

func (cm *CMode) markShared(p Ptr) {
	id := cm.cellOf(p)
	if !cm.shared[id] {
		cm.shared[id] = true
		cm.changed = true
	}
}

func (cm *CMode) noteAllocObj(p Ptr) {
	if cm.prelude {
		return
	}
	if cm.rp != nil {
		t := cm.rp.thrOf[cm.x.cur]
		if t == nil {
			return
		}
		cm.rp.evN[cm.x.cur]++
		cm.slotID[p] = fmt.Sprintf("t%d.a%d", t.id, cm.rp.evN[cm.x.cur])
		return
	}
	cm.allocSeq++
	cm.slotID[p] = fmt.Sprintf("t%d.a%d", cm.cur.id, cm.allocSeq)
}

func (cm *CMode) noteField(base, field Ptr, i int) {
	if id, ok := cm.slotID[base]; ok {
		if _, has := cm.slotID[field]; !has {
			cm.slotID[field] = fmt.Sprintf("%s.%d", id, i)
		}
		return
	}
	if id, ok := cm.preObj[base]; ok {
		if _, has := cm.preObj[field]; !has {
			cm.preObj[field] = fmt.Sprintf("%s.%d", id, i)
		}
	}
}

func (cm *CMode) goStmt(fn Value, args []Value, where string) {
	name := "go"
	switch f := fn.(type) {
	case *Closure:
		name = f.Fn.Name()
	case *ssa.Function:
		name = f.Name()
	}
	if cm.rp != nil {
		n := cm.gate('S', "")
		if n.ev.kind != 'S' {
			cm.rp.diverge = "schedule expected an access, thread spawns a goroutine"
			panic(pathEnd{kind: "cm-blocked", msg: cm.rp.diverge})
		}
		g := cm.x.spawn(fn, args, "replay:"+cm.threads[n.ev.child].name)
		cm.rp.thrOf[g] = cm.threads[n.ev.child]
		return
	}
	t := cm.spawnThread(name, fn, args, false)
	if !cm.prelude {
		cm.events = append(cm.events, cEvent{kind: 'S', child: t.id, note: where})
	}
}

// synthCell returns the slot that stands for an abstract shared object part (a sync.Map entry,
// a lock word); created on first use with the given initial value.
func (cm *CMode) synthCell(id string, init func() Value) Ptr {
	if cm.synth == nil {
		cm.synth = map[string]Ptr{}
	}
	if p, ok := cm.synth[id]; ok {
		return p
	}
	v := init()
	p := &v
	cm.synth[id] = p
	cm.preObj[p] = id
	return p
}

func (cm *CMode) fail(tag string) {
	if cm.rp != nil {
		cm.rp.failed = tag
		panic(pathEnd{kind: "done", msg: "assertion failed in replay: " + tag})
	}
	cm.pathBad = tag
	panic(pathEnd{kind: "cm-bad", msg: tag})
}

func init() {
	reg := func(name string, f intrinsic) { intrinsics[name] = f }
	reg(libPkg+"VerifGo", func(fr *frame, args []Value) Value {
		x := fr.x
		if x.cm == nil {
			// sequential mode: an ordinary goroutine
			x.spawn(args[1], nil, concStr(x, args[0]))
			return nil
		}
		x.cm.spawnThread(concStr(x, args[0]), args[1], nil, false)
		return nil
	})
	reg(libPkg+"VerifAtQuiescence", func(fr *frame, args []Value) Value {
		x := fr.x
		if x.cm == nil {
			x.yield()
			x.call(fr, 0, args[0], nil)
			return nil
		}
		x.cm.spawnThread("observer", args[0], nil, true)
		return nil
	})
	reg(libPkg+"VerifSharedLoad", func(fr *frame, args []Value) Value {
		x := fr.x
		p := args[0].(Ptr)
		if x.cm.active() {
			x.cm.markShared(p)
			return x.cm.sharedRead(p, "monitor")
		}
		return x.loadFrom(p)
	})
	reg(libPkg+"VerifSharedStore", func(fr *frame, args []Value) Value {
		x := fr.x
		p := args[0].(Ptr)
		if x.cm.active() {
			x.cm.markShared(p)
			x.cm.sharedWrite(p, args[1], "monitor")
			return nil
		}
		x.storeTo(p, args[1])
		return nil
	})
	reg(libPkg+"VerifSharedAdd", func(fr *frame, args []Value) Value {
		x := fr.x
		p := args[0].(Ptr)
		d := args[1].(*Term)
		if x.cm.active() {
			x.cm.markShared(p)
			old := x.cm.sharedRMW(p, "monitor", func(o Value) (Value, bool) { return x.ts.Bin(OpAdd, o.(*Term), d), true })
			return x.ts.Bin(OpAdd, old.(*Term), d)
		}
		n := x.ts.Bin(OpAdd, x.loadFrom(p).(*Term), d)
		x.storeTo(p, n)
		return n
	})
	reg(libPkg+"VerifOverride", func(fr *frame, args []Value) Value {
		x := fr.x
		if x.cm != nil {
			x.cm.overrides[concStr(x, args[0])] = args[1].(Iface).V
		}
		return nil
	})
	reg(libPkg+"VerifPathCount", func(fr *frame, args []Value) Value {
		// per thread path counter (loop-unwinding bounds inside harness fakes)
		x := fr.x
		name := concStr(x, args[0])
		if x.cm == nil {
			return x.ts.BV(0, 64)
		}
		if x.cm.pathCount == nil {
			x.cm.pathCount = map[string]int{}
		}
		x.cm.pathCount[name]++
		return x.ts.BV(uint64(x.cm.pathCount[name]), 64)
	})
	reg(libPkg+"VerifCut", func(fr *frame, args []Value) Value {
		if fr.x.cm.active() {
			panic(pathEnd{kind: "cm-cut", msg: "harness bound"})
		}
		return nil
	})
	reg(libPkg+"VerifConcurrentMode", func(fr *frame, args []Value) Value {
		return fr.x.ts.Bool(fr.x.cm != nil)
	})
}

var _ = types.Typ

func (cm *CMode) lockCell(p Ptr) Ptr {
	return cm.synthCell("lock:"+cm.cellOf(p), func() Value { return cm.x.ts.BV(0, 64) })
}

// ask runs the concurrency solver on a script and returns the first line of its answer.
func (cm *CMode) ask(script string) string {
	f, _ := os.CreateTemp("", "gosym-cm-*.smt2")
	f.WriteString(script)
	f.Close()
	defer os.Remove(f.Name())
	out := runSolverFile(cm.x.cfg.CSolver, f.Name(), cm.x.cfg.CTimeoutS)
	cm.x.solver.Queries++
	first := strings.TrimSpace(out)
	if i := strings.IndexByte(first, '\n'); i >= 0 {
		first = first[:i]
	}
	return first
}

// ---------------------------------------------------------------------------
// schedule replay: the real code is executed concretely (interpreted) with all threads alive at
// once; every access to a shared cell waits until the solver's schedule says it is that thread's
// turn. The counterexample counts as confirmed only if this run fails the same assertion.

type cReplay struct {
	steps   []*cNode // the events of the model, in clock order
	pos     int
	failed  string
	diverge string
	thrOf   map[*G]*cThread
	evN     map[*G]int
}

func (cm *CMode) replaySchedule(sel []*cNode) (string, string) {
	x := cm.x
	rp := &cReplay{thrOf: map[*G]*cThread{}, evN: map[*G]int{}}
	for _, n := range sel {
		switch n.ev.kind {
		case 'R', 'W', 'U', 'N', 'S':
			rp.steps = append(rp.steps, n)
		}
	}
	cm.rp = rp
	defer func() { cm.rp = nil }()
	// all harness threads exist from the start; spawned ones appear at their `go`
	x.pathDone = make(chan pathEnd, 1)
	x.gs = nil
	x.aborting = false
	x.steps = 0
	x.journal = x.journal[:0]
	cm.slotID = map[Ptr]string{}
	cm.localObj = map[string]Ptr{}
	cm.allocSeq = 0
	cm.ownLast = map[string]string{}
	main := x.spawn(&ssaNop, nil, "replay-controller")
	_ = main
	var started []*G
	for _, t := range cm.threads {
		if !t.harness || t.observer || t.root == nil {
			continue
		}
		used := false
		for _, n := range sel {
			if n.thr == t {
				used = true
			}
		}
		if !used {
			continue
		}
		g := x.spawn(t.fn, t.args, "replay:"+t.name)
		rp.thrOf[g] = t
		started = append(started, g)
	}
	// controller goroutine: waits until every thread is finished or stuck
	ctl := x.gs[0]
	ctl.fn = nil
	ctl.started = true
	x.cur = ctl
	x.wg.Add(1)
	go func() {
		defer x.wg.Done()
		defer func() {
			if r := recover(); r != nil {
				if pe, ok := r.(pathEnd); ok {
					x.finish(pe)
					return
				}
				x.finish(pathEnd{kind: "internal", msg: fmt.Sprint(r)})
			}
		}()
		<-ctl.wake
		if x.aborting {
			return
		}
		x.cur = ctl
		allDone := func() bool {
			for _, g := range x.gs[1:] {
				if !g.done {
					return false
				}
			}
			return true
		}
		x.block(allDone, "replay controller")
		// quiescence: the observer (lib.VerifAtQuiescence) runs once every thread has finished
		for _, t := range cm.threads {
			if !t.observer || t.root == nil {
				continue
			}
			used := false
			for _, n := range sel {
				if n.thr == t {
					used = true
				}
			}
			if !used {
				continue
			}
			g := x.spawn(t.fn, t.args, "replay:"+t.name)
			rp.thrOf[g] = t
			x.cur = ctl
			x.block(allDone, "replay controller (observer)")
		}
		x.finish(pathEnd{kind: "done"})
	}()
	ctl.wake <- struct{}{}
	pe := <-x.pathDone
	x.aborting = true
	for _, g := range x.gs {
		if g.started && !g.done {
			select {
			case g.wake <- struct{}{}:
			default:
			}
		}
	}
	x.wg.Wait()
	x.aborting = false
	for i := len(x.journal) - 1; i >= 0; i-- {
		x.journal[i]()
	}
	x.journal = x.journal[:0]
	if rp.failed != "" {
		return rp.failed, ""
	}
	if pe.kind == "panic" || pe.kind == "panic-goroutine" {
		return "uncaught " + firstLine(pe.msg), ""
	}
	if rp.diverge != "" {
		return "", rp.diverge
	}
	exp := ""
	if rp.pos < len(rp.steps) {
		n := rp.steps[rp.pos]
		exp = fmt.Sprintf("; next scheduled: %s %c %s", n.thr.name, n.ev.kind, n.ev.addr)
	}
	return "", "replay ended with " + pe.kind + " " + firstLine(pe.msg) + fmt.Sprintf(" at step %d of %d", rp.pos, len(rp.steps)) + exp
}

var ssaNop ssa.Function

// gate blocks the current goroutine until the schedule's next step is this thread's access of addr.
func (cm *CMode) gate(kind byte, addr string) *cNode {
	x := cm.x
	rp := cm.rp
	g := x.cur
	t := rp.thrOf[g]
	if t == nil {
		panic(pathEnd{kind: "hang", msg: "replay: access by an unknown thread"})
	}
	turn := func() bool {
		if rp.pos >= len(rp.steps) {
			return false
		}
		n := rp.steps[rp.pos]
		return n.thr == t
	}
	if !turn() {
		if rp.pos >= len(rp.steps) {
			// the schedule is over: this thread was not meant to get further
			panic(pathEnd{kind: "cm-blocked", msg: "beyond the schedule"})
		}
		x.block(turn, "replay gate")
	}
	n := rp.steps[rp.pos]
	if os.Getenv("GOSYM_DEBUG") != "" {
		fmt.Fprintf(os.Stderr, "GATE step %d thread %s kind %c addr %s (schedule: %s %c %s)%s\n", rp.pos, t.name, kind, addr, n.thr.name, n.ev.kind, n.ev.addr, x.whereAmI())
	}
	if n.ev.addr != addr && n.ev.kind != 'S' {
		rp.diverge = fmt.Sprintf("step %d: thread %s accesses %s, schedule says %s", rp.pos, t.name, addr, n.ev.addr)
		panic(pathEnd{kind: "cm-blocked", msg: rp.diverge})
	}
	rp.pos++
	return n
}
