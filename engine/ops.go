package engine

import (
	"fmt"
	"go/token"
	"go/types"
	"math"
	"unicode/utf8"

	"golang.org/x/tools/go/ssa"
)

func (x *Exec) unop(fr *frame, instr *ssa.UnOp, v Value) Value {
	ts := x.ts
	switch instr.Op {
	case token.MUL: // load
		return x.loadFrom(v)
	case token.ARROW:
		return x.chanRecv(v.(*Chan), instr.CommaOk)
	case token.NOT:
		return ts.Not(v.(*Term))
	case token.SUB:
		t := v.(*Term)
		if isFloat(instr.X.Type()) {
			if t.IsConst() {
				return x.floatConst(t.W, -x.floatVal(t))
			}
			x.unsupported("symbolic float negation")
		}
		return ts.Neg(t)
	case token.XOR:
		return ts.BNot(v.(*Term))
	}
	x.unsupported("unop " + instr.Op.String())
	return nil
}

func (x *Exec) floatVal(t *Term) float64 {
	if t.W == 32 {
		return float64(math.Float32frombits(uint32(t.C)))
	}
	return math.Float64frombits(t.C)
}

func (x *Exec) floatConst(w int, f float64) *Term {
	if w == 32 {
		return x.ts.BV(uint64(math.Float32bits(float32(f))), 32)
	}
	return x.ts.BV(math.Float64bits(f), 64)
}

// binop evaluates a binary operator; a result that the stated bounds of the path condition pin to a
// single value is replaced by that constant (constant propagation under the path condition: keeps
// the calendar arithmetic of package time from dragging its division chains through every query).
func (x *Exec) binop(op token.Token, t types.Type, av, bv Value) Value {
	r := x.binop0(op, t, av, bv)
	if tr, ok := r.(*Term); ok && !tr.IsConst() && len(x.bounds) > 0 && !x.noFold {
		return x.fold(tr)
	}
	return r
}

func (x *Exec) binop0(op token.Token, t types.Type, av, bv Value) Value {
	ts := x.ts
	switch op {
	case token.EQL:
		return x.equal(t, av, bv)
	case token.NEQ:
		return ts.Not(x.equal(t, av, bv))
	}
	if isString(t) {
		a, b := av.(Str), bv.(Str)
		switch op {
		case token.ADD:
			if a.Conc && b.Conc {
				return x.mkStr(a.C + b.C)
			}
			return x.normStr(append(append([]*Term{}, x.strBytes(a)...), x.strBytes(b)...))
		case token.LSS, token.LEQ, token.GTR, token.GEQ:
			if a.Conc && b.Conc {
				switch op {
				case token.LSS:
					return ts.Bool(a.C < b.C)
				case token.LEQ:
					return ts.Bool(a.C <= b.C)
				case token.GTR:
					return ts.Bool(a.C > b.C)
				default:
					return ts.Bool(a.C >= b.C)
				}
			}
			x.unsupported("ordering of symbolic strings")
		}
	}
	a, ok1 := av.(*Term)
	b, ok2 := bv.(*Term)
	if !ok1 || !ok2 {
		x.unsupported(fmt.Sprintf("binop %s on %T %T", op, av, bv))
	}
	if isFloat(t) {
		if a.IsConst() && b.IsConst() {
			fa, fb := x.floatVal(a), x.floatVal(b)
			switch op {
			case token.ADD:
				return x.floatConst(a.W, fa+fb)
			case token.SUB:
				return x.floatConst(a.W, fa-fb)
			case token.MUL:
				return x.floatConst(a.W, fa*fb)
			case token.QUO:
				return x.floatConst(a.W, fa/fb)
			case token.LSS:
				return ts.Bool(fa < fb)
			case token.LEQ:
				return ts.Bool(fa <= fb)
			case token.GTR:
				return ts.Bool(fa > fb)
			case token.GEQ:
				return ts.Bool(fa >= fb)
			}
		}
		x.unsupported("symbolic float arithmetic " + op.String())
	}
	if a.W == 0 {
		switch op {
		case token.AND, token.LAND:
			return ts.And(a, b)
		case token.OR, token.LOR:
			return ts.Or(a, b)
		case token.XOR:
			return ts.Not(ts.Eq(a, b))
		}
		x.unsupported("bool binop " + op.String())
	}
	signed := isSigned(t)
	switch op {
	case token.ADD:
		return ts.Bin(OpAdd, a, b)
	case token.SUB:
		return ts.Bin(OpSub, a, b)
	case token.MUL:
		return ts.Bin(OpMul, a, b)
	case token.QUO, token.REM:
		z := ts.Eq(b, ts.BV(0, b.W))
		if !z.IsFalse() {
			if x.Branch(z) {
				x.targetPanicStr("runtime error: integer divide by zero")
			}
		}
		if op == token.QUO {
			if signed {
				return ts.Bin(OpSDiv, a, b)
			}
			return ts.Bin(OpUDiv, a, b)
		}
		if signed {
			return ts.Bin(OpSRem, a, b)
		}
		return ts.Bin(OpURem, a, b)
	case token.AND:
		return ts.Bin(OpBAnd, a, b)
	case token.OR:
		return ts.Bin(OpBOr, a, b)
	case token.XOR:
		return ts.Bin(OpBXor, a, b)
	case token.AND_NOT:
		return ts.Bin(OpBAnd, a, ts.BNot(b))
	case token.SHL, token.SHR:
		// the shift count has its own type; normalise it to the operand width
		cnt := b
		w := a.W
		var big *Term = ts.F
		if cnt.W > w {
			big = ts.Not(ts.Cmp(OpULt, cnt, ts.BV(uint64(w), cnt.W)))
			cnt = ts.Extract(cnt, w-1, 0)
		} else if cnt.W < w {
			cnt = ts.ZExt(cnt, w)
		}
		// a constant shifted by a symbolic count that the stated bounds confine to a few values
		// (1<<hour, 1<<day in bit-mask tests): an if-then-else over those values instead of a
		// symbolic shift, which is what int-blasting back ends are worst at
		if a.IsConst() && !cnt.IsConst() && len(x.bounds) > 0 && !x.noFold {
			if x.ivMemo == nil {
				x.ivMemo = map[int]ival{}
			}
			if rg := x.rangeOf(cnt, x.ivMemo); rg.ok && rg.hi < uint64(w) && rg.hi-rg.lo < 64 {
				sh := func(k uint64) *Term {
					switch {
					case op == token.SHL:
						return ts.Bin(OpShl, a, ts.BV(k, w))
					case signed:
						return ts.Bin(OpAShr, a, ts.BV(k, w))
					}
					return ts.Bin(OpLShr, a, ts.BV(k, w))
				}
				r := sh(rg.hi)
				for k := rg.hi; k > rg.lo; k-- {
					r = ts.Ite(ts.Eq(cnt, ts.BV(k-1, w)), sh(k-1), r)
				}
				return r
			}
		}
		var r *Term
		switch {
		case op == token.SHL:
			r = ts.Bin(OpShl, a, cnt)
			return ts.Ite(big, ts.BV(0, w), r)
		case signed:
			r = ts.Bin(OpAShr, a, cnt)
			return ts.Ite(big, ts.Bin(OpAShr, a, ts.BV(uint64(w-1), w)), r)
		default:
			r = ts.Bin(OpLShr, a, cnt)
			return ts.Ite(big, ts.BV(0, w), r)
		}
	case token.LSS:
		if signed {
			return ts.Cmp(OpSLt, a, b)
		}
		return ts.Cmp(OpULt, a, b)
	case token.LEQ:
		if signed {
			return ts.Cmp(OpSLe, a, b)
		}
		return ts.Cmp(OpULe, a, b)
	case token.GTR:
		if signed {
			return ts.Cmp(OpSLt, b, a)
		}
		return ts.Cmp(OpULt, b, a)
	case token.GEQ:
		if signed {
			return ts.Cmp(OpSLe, b, a)
		}
		return ts.Cmp(OpULe, b, a)
	}
	x.unsupported("binop " + op.String())
	return nil
}

func (x *Exec) conv(dst, src types.Type, v Value) Value {
	ts := x.ts
	ud, us := dst.Underlying(), src.Underlying()
	// pointer <-> unsafe.Pointer: identity
	switch v := v.(type) {
	case Ptr:
		if b, ok := ud.(*types.Basic); ok && b.Kind() == types.Uintptr {
			if v == nil {
				return ts.BV(0, 64)
			}
			return x.ptrToInt(v)
		}
		return v
	case SymPtr:
		return v
	}
	switch us := us.(type) {
	case *types.Slice:
		s := v.(Slice)
		if isString(dst) {
			// []byte/[]rune -> string
			if eb, ok := us.Elem().Underlying().(*types.Basic); ok && eb.Kind() == types.Uint8 {
				b := make([]*Term, len(s.S))
				for i := range s.S {
					b[i] = s.S[i].(*Term)
				}
				return x.normStr(b)
			}
			var rs []rune
			for _, e := range s.S {
				t := e.(*Term)
				if !t.IsConst() {
					x.unsupported("[]rune with symbolic runes -> string")
				}
				rs = append(rs, rune(t.Int()))
			}
			return x.mkStr(string(rs))
		}
		return v
	case *types.Basic:
		if us.Info()&types.IsString != 0 {
			s := v.(Str)
			switch ud := ud.(type) {
			case *types.Slice:
				eb := ud.Elem().Underlying().(*types.Basic)
				if eb.Kind() == types.Uint8 {
					b := x.strBytes(s)
					out := make([]Value, len(b))
					for i := range b {
						out[i] = b[i]
					}
					x.noteAlloc(int64(len(out)))
					return Slice{S: out}
				}
				if !s.Conc {
					x.unsupported("symbolic string -> []rune")
				}
				var out []Value
				for _, r := range s.C {
					out = append(out, ts.BV(uint64(r), 32))
				}
				return Slice{S: out}
			case *types.Basic:
				return v
			}
		}
		t, isT := v.(*Term)
		if !isT {
			x.unsupported(fmt.Sprintf("convert %s -> %s (%T)", src, dst, v))
		}
		db, ok := ud.(*types.Basic)
		if !ok {
			if _, isP := ud.(*types.Pointer); isP {
				// uintptr -> pointer
				if t.IsConst() && t.C == 0 {
					return Ptr(nil)
				}
				return x.intToPtr(t)
			}
			x.unsupported(fmt.Sprintf("convert %s -> %s", src, dst))
		}
		if db.Kind() == types.UnsafePointer {
			if t.IsConst() && t.C == 0 {
				return Ptr(nil)
			}
			return x.intToPtr(t)
		}
		if db.Info()&types.IsString != 0 {
			// integer -> string (rune)
			if !t.IsConst() {
				x.unsupported("symbolic rune -> string")
			}
			r := rune(t.Int())
			if t.Int() < 0 || t.Int() > utf8.MaxRune {
				r = utf8.RuneError
			}
			return x.mkStr(string(r))
		}
		sf, df := us.Info()&types.IsFloat != 0, db.Info()&types.IsFloat != 0
		dw := x.widthOf(dst)
		switch {
		case sf && df:
			if !t.IsConst() {
				if t.W == dw {
					return t
				}
				if dw == 64 {
					return x.f32to64(t)
				}
				return x.f64to32(t)
			}
			return x.floatConst(dw, x.floatVal(t))
		case sf && !df:
			if !t.IsConst() {
				x.unsupported("symbolic float -> int")
			}
			f := x.floatVal(t)
			if isSigned(dst) {
				return ts.BV(uint64(int64(f)), dw)
			}
			return ts.BV(uint64(f), dw)
		case !sf && df:
			if !t.IsConst() {
				x.unsupported("symbolic int -> float")
			}
			if isSigned(src) {
				return x.floatConst(dw, float64(t.Int()))
			}
			return x.floatConst(dw, float64(t.C))
		}
		if t.W == 0 || dw <= 0 {
			x.unsupported(fmt.Sprintf("convert %s -> %s", src, dst))
		}
		if dw <= t.W {
			return ts.Extract(t, dw-1, 0)
		}
		if isSigned(src) {
			return ts.SExt(t, dw)
		}
		return ts.ZExt(t, dw)
	}
	return v
}

// Pointers converted to integers get a stable fake address (only nil-ness and equality matter).
func (x *Exec) ptrToInt(p Ptr) *Term {
	if a, ok := x.ptrAddr[p]; ok {
		return x.ts.BV(a, 64)
	}
	x.ptrSeq += 4096
	x.ptrAddr[p] = x.ptrSeq
	x.addrPtr[x.ptrSeq] = p
	return x.ts.BV(x.ptrSeq, 64)
}

func (x *Exec) intToPtr(t *Term) Ptr {
	if !t.IsConst() {
		x.unsupported("symbolic integer -> pointer")
	}
	if p, ok := x.addrPtr[t.C]; ok {
		return p
	}
	x.unsupported(fmt.Sprintf("integer %#x -> pointer", t.C))
	return nil
}

func (x *Exec) callBuiltin(caller *frame, pos token.Pos, fn *ssa.Builtin, args []Value) Value {
	ts := x.ts
	switch fn.Name() {
	case "append":
		if len(args) == 1 {
			return args[0]
		}
		dst := args[0].(Slice)
		var add []Value
		switch s := args[1].(type) {
		case Slice:
			if len(s.S) == 0 {
				return dst
			}
			add = s.S
		case Str:
			if s.Len() == 0 {
				return dst
			}
			for _, b := range x.strBytes(s) {
				add = append(add, b)
			}
		}
		n := len(dst.S)
		if n+len(add) <= cap(dst.S) {
			out := dst.S[:n+len(add)]
			for i, v := range add {
				x.store(&out[n+i], copyVal(v))
			}
			return Slice{S: out}
		}
		// grow like the runtime does (doubling), which matters for aliasing only
		nc := cap(dst.S) * 2
		if nc < n+len(add) {
			nc = n + len(add)
		}
		x.noteAlloc(int64(nc))
		out := make([]Value, n+len(add), nc)
		for i := 0; i < n; i++ {
			out[i] = copyVal(dst.S[i])
		}
		for i, v := range add {
			out[n+i] = copyVal(v)
		}
		// fill spare capacity with zero values of the element type lazily: use the first element's zero
		if nc > n+len(add) {
			var z Value
			if st, ok := fn.Type().(*types.Signature); ok && st.Params().Len() > 0 {
				if slt, ok := st.Params().At(0).Type().Underlying().(*types.Slice); ok {
					z = x.zero(slt.Elem())
				}
			}
			full := out[:nc]
			for i := n + len(add); i < nc; i++ {
				if _, scalar := z.(*Term); scalar || z == nil {
					full[i] = z
				} else {
					full[i] = copyVal(z)
				}
			}
		}
		return Slice{S: out}
	case "copy":
		dst := args[0].(Slice)
		var src []Value
		switch s := args[1].(type) {
		case Slice:
			src = s.S
		case Str:
			for _, b := range x.strBytes(s) {
				src = append(src, b)
			}
		}
		n := len(dst.S)
		if len(src) < n {
			n = len(src)
		}
		// overlapping copy: go through a temporary
		tmp := make([]Value, n)
		for i := 0; i < n; i++ {
			tmp[i] = copyVal(src[i])
		}
		for i := 0; i < n; i++ {
			x.store(&dst.S[i], tmp[i])
		}
		return ts.BV(uint64(n), 64)
	case "close":
		x.chanClose(args[0].(*Chan))
		return nil
	case "delete":
		if m := args[0].(*Map); m != nil {
			x.mapDelete(m, args[1])
		}
		return nil
	case "print", "println":
		return nil
	case "len":
		switch a := args[0].(type) {
		case Str:
			return ts.BV(uint64(a.Len()), 64)
		case Array:
			return ts.BV(uint64(len(a)), 64)
		case Ptr:
			return ts.BV(uint64(len((*a).(Array))), 64)
		case Slice:
			return ts.BV(uint64(len(a.S)), 64)
		case *Map:
			if a == nil {
				return ts.BV(0, 64)
			}
			return ts.BV(uint64(len(a.ents)), 64)
		case *Chan:
			if a == nil {
				return ts.BV(0, 64)
			}
			return ts.BV(uint64(len(a.buf)), 64)
		}
	case "cap":
		switch a := args[0].(type) {
		case Array:
			return ts.BV(uint64(len(a)), 64)
		case Ptr:
			return ts.BV(uint64(len((*a).(Array))), 64)
		case Slice:
			return ts.BV(uint64(cap(a.S)), 64)
		case *Chan:
			if a == nil {
				return ts.BV(0, 64)
			}
			return ts.BV(uint64(a.cap), 64)
		}
	case "recover":
		return x.doRecover(caller)
	case "panic":
		panic(targetPanic{v: args[0], where: x.whereAmI()})
	case "ssa:wrapnilchk":
		if p, ok := args[0].(Ptr); ok && p == nil {
			x.targetPanicStr("value method called using nil pointer")
		}
		return args[0]
	case "min", "max":
		r := args[0].(*Term)
		signed := false
		if sig, ok := fn.Type().(*types.Signature); ok && sig.Params().Len() > 0 {
			signed = isSigned(sig.Params().At(0).Type())
		}
		for _, a := range args[1:] {
			t := a.(*Term)
			op := OpULt
			if signed {
				op = OpSLt
			}
			var c *Term
			if fn.Name() == "min" {
				c = ts.Cmp(op, t, r)
			} else {
				c = ts.Cmp(op, r, t)
			}
			r = ts.Ite(c, t, r)
		}
		return r
	case "String": // unsafe.String(ptr, len)
		x.unsupported("unsafe.String")
	}
	x.unsupported("builtin " + fn.Name())
	return nil
}

func (x *Exec) doRecover(caller *frame) Value {
	if caller != nil && !caller.panicking && caller.caller != nil && caller.caller.panicking {
		caller.caller.panicking = false
		p := caller.caller.panic
		caller.caller.panic = nil
		if tp, ok := p.(targetPanic); ok {
			x.recovered++
			return tp.v
		}
		panic(fmt.Sprintf("unexpected panic type %T in recover", p))
	}
	return Iface{}
}
