package engine

import (
	"fmt"
	"os"
	"path/filepath"
	"strings"

	"golang.org/x/tools/go/packages"
	"golang.org/x/tools/go/ssa"
	"golang.org/x/tools/go/ssa/ssautil"
)

// Loaded is an SSA program built from /repo's current tree plus overlay harness files.
type Loaded struct {
	Prog    *ssa.Program
	Pkgs    map[string]*ssa.Package
	Overlay map[string][]byte
	Repo    string
	Dropped []string // harness files left out because they do not compile against this tree
}

// Load builds SSA for the given package paths (module ergo.services/ergo rooted at repo).
// overlay maps virtual file paths below repo to harness sources.
func Load(repo string, pkgPaths []string, overlay map[string][]byte) (*Loaded, error) {
	// A harness file that no longer compiles against the current tree (an internal signature was
	// changed) is dropped and the load repeated, so that the other harness files of the package still
	// run; the entries that lived in a dropped file are reported as inconclusive by the caller.
	var dropped []string
	for attempt := 0; ; attempt++ {
		l, bad, err := load1(repo, pkgPaths, overlay)
		if err == nil {
			l.Dropped = dropped
			return l, nil
		}
		if attempt >= 4 || len(bad) == 0 {
			return nil, err
		}
		ov := map[string][]byte{}
		for k, v := range overlay {
			ov[k] = v
		}
		for _, f := range bad {
			delete(ov, f)
			dropped = append(dropped, f+": "+firstLine(err.Error()))
		}
		overlay = ov
	}
}

func load1(repo string, pkgPaths []string, overlay map[string][]byte) (*Loaded, []string, error) {
	cfg := &packages.Config{
		Mode:       packages.LoadAllSyntax,
		Dir:        repo,
		BuildFlags: []string{"-tags=verif"},
		Overlay:    overlay,
		Env: append(os.Environ(), "GOFLAGS=-mod=mod", "GOPROXY=off", "GOSUMDB=off", "GOTOOLCHAIN=local",
			"CGO_ENABLED=0"),
	}
	initial, err := packages.Load(cfg, pkgPaths...)
	if err != nil {
		return nil, nil, err
	}
	var errs []string
	badSet := map[string]bool{}
	packages.Visit(initial, nil, func(p *packages.Package) {
		for _, e := range p.Errors {
			errs = append(errs, e.Error())
			if i := strings.IndexByte(e.Pos, ':'); i > 0 {
				f := e.Pos[:i]
				if _, isOv := overlay[f]; isOv && strings.HasPrefix(filepath.Base(f), "zz_verif_") && filepath.Base(f) != "zz_verif_rt.go" {
					badSet[f] = true
				}
			}
		}
	})
	if len(errs) > 0 {
		var bad []string
		for f := range badSet {
			bad = append(bad, f)
		}
		return nil, bad, fmt.Errorf("load errors (harness does not compile against this tree?):\n  %s", strings.Join(errs, "\n  "))
	}
	prog, pkgs := ssautil.AllPackages(initial, ssa.InstantiateGenerics|ssa.SanityCheckFunctions&0)
	prog.Build()
	l := &Loaded{Prog: prog, Pkgs: map[string]*ssa.Package{}, Overlay: overlay, Repo: repo}
	for i, p := range pkgs {
		if p != nil {
			l.Pkgs[initial[i].PkgPath] = p
		}
	}
	return l, nil, nil
}

// OverlayFor maps harness files in dir (…/harness/<rel pkg>/*.go) and the runtime into repo paths.
func OverlayFor(verifDir, repo string, relPkgs []string) (map[string][]byte, error) {
	ov := map[string][]byte{}
	rt, err := os.ReadFile(filepath.Join(verifDir, "rt", "zz_verif_rt.go"))
	if err != nil {
		return nil, err
	}
	ov[filepath.Join(repo, "lib", "zz_verif_rt.go")] = rt
	for _, rel := range relPkgs {
		files, _ := filepath.Glob(filepath.Join(verifDir, "harness", rel, "*.go"))
		for _, f := range files {
			b, err := os.ReadFile(f)
			if err != nil {
				return nil, err
			}
			ov[filepath.Join(repo, rel, "zz_verif_"+filepath.Base(f))] = b
		}
	}
	return ov, nil
}

// InitDeny lists packages whose initializers are skipped (their globals stay zero).
var InitDeny = map[string]bool{}

// initAllowed says whether a package's initializer is executed (others keep zero globals).
func initAllowed(path string) bool {
	if InitDeny[path] {
		return false
	}
	if strings.HasPrefix(path, "ergo.services/ergo") {
		return true
	}
	switch path {
	case "io", "strconv", "math", "math/bits", "unicode/utf8", "encoding/binary",
		"time", "sort", "bytes", "strings", "context", "io/fs", "internal/oserror",
		"compress/flate", "compress/gzip", "compress/zlib", "compress/lzw", "hash/crc32", "hash/adler32", "bufio",
		"crypto/sha256", "encoding/hex":
		return true
	}
	return false
}

// RunInit executes the package initializers needed by pkg (leniently) once; their effects
// become the initial state of every path.
func (x *Exec) RunInit(pkg *ssa.Package) error {
	initFn := pkg.Func("init")
	if initFn == nil {
		return nil
	}
	x.resetPath()
	x.lenient++
	defer func() { x.lenient-- }()
	x.journalOn = false
	x.pathDone = make(chan pathEnd, 1)
	saved := x.cfg.MaxSteps
	x.cfg.MaxSteps = 200_000_000
	defer func() { x.cfg.MaxSteps = saved }()
	g0 := x.spawn(initFn, nil, "init")
	g0.started = true
	x.cur = g0
	x.wg.Add(1)
	go x.gMain(g0)
	g0.wake <- struct{}{}
	pe := <-x.pathDone
	x.aborting = true
	for _, g := range x.gs {
		if g.started && !g.done {
			select {
			case g.wake <- struct{}{}:
			default:
			}
		}
	}
	x.wg.Wait()
	if pe.kind != "done" {
		return fmt.Errorf("package init: %s: %s", pe.kind, pe.msg)
	}
	// forget everything the initializers touched in the statistics
	x.Funcs = map[string]bool{}
	x.Intrinsics = map[string]bool{}
	x.Assumes = map[string]int{}
	return nil
}
