package engine

import (
	"fmt"
	"os"
	"sort"
	"strings"
)

// Lock-guarded state in concurrency mode.
//
// Plain (non-atomic) data is thread-local in the unfolding: a thread's ordinary stores are invisible
// to the others. Data that the code protects with a mutex, or keeps in a sync.Map, is shared all the
// same; the harness names such objects with lib.VerifGuarded. For a guarded struct (the struct that
// embeds the lock) the whole content travels through ONE abstract cell:
//
//	Lock    = lock-word event, then a READ of the state cell (one path per state any thread may have
//	          left behind), whose snapshot is copied into the thread's own heap;
//	Unlock  = a WRITE of the state cell with a snapshot of the content, then the lock-word event.
//
// RLock reads, RUnlock writes nothing. A guarded sync.Map performs each operation as one atomic
// read-modify-write of its state cell. States are identified by a canonical rendering of their
// content (maps sorted by key), so equal contents reached on different paths are one candidate.

type guardInfo struct {
	obj       Ptr // the guarded struct (nil for a sync.Map)
	lockField int
	smap      Ptr // the sync.Map slot (nil for a struct)
	id        string
}

func (cm *CMode) guardOfLock(lock Ptr) *guardInfo {
	if cm == nil || cm.guards == nil {
		return nil
	}
	g := cm.guards[lock]
	if g == nil && os.Getenv("GOSYM_DEBUG") == "3" {
		fmt.Fprintf(os.Stderr, "GUARD? lock %p (%s) not among %d guards\n", lock, cm.cellOf(lock), len(cm.guards))
		for k, v := range cm.guards {
			fmt.Fprintf(os.Stderr, "   guard %p %s\n", k, v.id)
		}
	}
	return g
}

// registerGuard is lib.VerifGuarded: v is a pointer to a struct with an embedded/first lock field, or
// a pointer to a sync.Map.
func (cm *CMode) registerGuard(v Value) {
	x := cm.x
	isSyncMap := false
	if itf, ok := v.(Iface); ok {
		isSyncMap = itf.T != nil && itf.T.String() == "*sync.Map"
		v = itf.V
	}
	p, ok := v.(Ptr)
	if !ok || p == nil {
		x.unsupported("VerifGuarded: expected a pointer")
	}
	if cm.guards == nil {
		cm.guards = map[Ptr]*guardInfo{}
	}
	st, isStruct := (*p).(Struct)
	if isStruct && !isSyncMap {
		// a struct whose field 0 is the lock (sync.Mutex / sync.RWMutex, embedded or named)
		for i := range st {
			if _, lockLike := st[i].(Struct); lockLike {
				g := &guardInfo{obj: p, lockField: i, id: "guard:" + cm.cellOf(p)}
				cm.guards[&st[i]] = g
				return
			}
		}
	}
	// otherwise: a sync.Map slot
	g := &guardInfo{smap: p, id: "smap:" + cm.cellOf(p)}
	cm.guards[p] = g
}

// gkey renders a value canonically (content, not identity, for maps).
func (cm *CMode) gkey(v Value) string {
	switch v := v.(type) {
	case nil:
		return "nil"
	case *Term:
		if !v.IsConst() {
			cm.x.unsupported("concurrency mode: symbolic value in lock-guarded state")
		}
		return fmt.Sprintf("%d:%d", v.W, v.C)
	case Str:
		return "s:" + v.C
	case Ptr:
		if v == nil {
			return "p:nil"
		}
		return "p:" + cm.cellOf(v)
	case Struct:
		var p []string
		for _, f := range v {
			p = append(p, cm.gkey(f))
		}
		return "{" + strings.Join(p, ",") + "}"
	case Array:
		var p []string
		for _, f := range v {
			p = append(p, cm.gkey(f))
		}
		return "[" + strings.Join(p, ",") + "]"
	case Slice:
		if v.Nil {
			return "sl:nil"
		}
		var p []string
		for _, f := range v.S {
			p = append(p, cm.gkey(f))
		}
		return "sl[" + strings.Join(p, ",") + "]"
	case Iface:
		if v.T == nil {
			return "f:nil"
		}
		return "f:" + v.T.String() + ":" + cm.gkey(v.V)
	case *Map:
		if v == nil {
			return "m:nil"
		}
		var p []string
		for _, e := range v.ents {
			p = append(p, cm.gkey(e.k)+"=>"+cm.gkey(e.v))
		}
		sort.Strings(p)
		return "M[" + strings.Join(p, ";") + "]"
	case *Closure:
		if v == nil {
			return "fn:nil"
		}
		return "fn:" + v.Fn.String()
	case Native:
		return fmt.Sprintf("n:%v", v.X)
	}
	return fmt.Sprintf("%T", v)
}

// gcopy is a deep copy in which maps are copied by content.
func (cm *CMode) gcopy(v Value) Value {
	switch v := v.(type) {
	case Struct:
		n := make(Struct, len(v))
		for i, f := range v {
			n[i] = cm.gcopy(f)
		}
		return n
	case Array:
		n := make(Array, len(v))
		for i, f := range v {
			n[i] = cm.gcopy(f)
		}
		return n
	case Slice:
		if v.Nil {
			return v
		}
		n := make([]Value, len(v.S))
		for i, f := range v.S {
			n[i] = cm.gcopy(f)
		}
		return Slice{S: n}
	case Iface:
		if v.T == nil {
			return v
		}
		return Iface{T: v.T, V: cm.gcopy(v.V)}
	case *Map:
		if v == nil {
			return v
		}
		cm.x.mapSeq++
		n := &Map{kt: v.kt, vt: v.vt, id: cm.x.mapSeq}
		for _, e := range v.ents {
			n.ents = append(n.ents, &mapEnt{k: cm.gcopy(e.k), v: cm.gcopy(e.v), live: e.live})
		}
		return n
	}
	return v
}

// guardContent: the guarded content of g in the current heap, and its key.
func (cm *CMode) guardContent(g *guardInfo) (Value, string) {
	if g.smap != nil {
		m := cm.x.smap(g.smap)
		return m, cm.gkey(m)
	}
	st := (*g.obj).(Struct)
	c := make(Struct, len(st))
	for i := range st {
		if i != g.lockField {
			c[i] = st[i]
		}
	}
	return c, cm.gkey(c)
}

func (cm *CMode) guardRemember(g *guardInfo) string {
	c, k := cm.guardContent(g)
	if cm.gsnaps == nil {
		cm.gsnaps = map[string]Value{}
	}
	if _, ok := cm.gsnaps[k]; !ok {
		cm.gsnaps[k] = cm.gcopy(c)
	}
	return k
}

func (cm *CMode) guardCell(g *guardInfo) Ptr {
	c := cm.synthCell(g.id, func() Value { return Native{X: cm.guardRemember(g)} })
	cm.markShared(c)
	return c
}

// guardInstall copies the state with the given key into the thread's heap.
func (cm *CMode) guardInstall(g *guardInfo, key string) {
	x := cm.x
	snap, ok := cm.gsnaps[key]
	if !ok {
		x.unsupported("concurrency mode: unknown guarded state " + shortVal(key))
	}
	if g.smap != nil {
		m := x.smap(g.smap)
		old := m.ents
		if x.journalOn {
			x.journal = append(x.journal, func() { m.ents = old })
		}
		m.ents = cm.gcopy(snap).(*Map).ents
		return
	}
	st := (*g.obj).(Struct)
	sn := snap.(Struct)
	for i := range st {
		if i != g.lockField {
			x.store(&st[i], cm.gcopy(sn[i]))
		}
	}
}

// guardAcquire runs right after the lock has been taken.
func (cm *CMode) guardAcquire(g *guardInfo) {
	cell := cm.guardCell(g)
	if cm.rp != nil {
		// schedule replay: the heap is really shared; keep the cell in step with it for the
		// divergence check and pass the gate
		cm.x.store(cell, Native{X: cm.guardRemember(g)})
		cm.sharedRead(cell, "guarded state")
		return
	}
	v := cm.sharedRead(cell, "guarded state")
	cm.guardInstall(g, v.(Native).X.(string))
}

// guardRelease runs right before a write lock is given back.
func (cm *CMode) guardRelease(g *guardInfo) {
	cell := cm.guardCell(g)
	cm.sharedWrite(cell, Native{X: cm.guardRemember(g)}, "guarded state")
}

// smapOp performs one sync.Map operation; on a guarded map in concurrency mode it is one atomic
// read (readOnly) or read-modify-write event on the map's state cell.
func (x *Exec) smapOp(p Ptr, readOnly bool, op func(m *Map) Value) Value {
	cm := x.cm
	var g *guardInfo
	if cm.active() || (cm != nil && cm.rp != nil) {
		g = cm.guardOfLock(p)
	}
	if g == nil {
		return op(x.smap(p))
	}
	cell := cm.guardCell(g)
	if cm.rp != nil {
		x.store(cell, Native{X: cm.guardRemember(g)})
		if readOnly {
			cm.sharedRead(cell, "sync.Map")
			return op(x.smap(p))
		}
		var res Value
		cm.sharedRMW(cell, "sync.Map", func(old Value) (Value, bool) {
			res = op(x.smap(p))
			return Native{X: cm.guardRemember(g)}, true
		})
		return res
	}
	if readOnly {
		v := cm.sharedRead(cell, "sync.Map")
		cm.guardInstall(g, v.(Native).X.(string))
		return op(x.smap(p))
	}
	var res Value
	cm.sharedRMW(cell, "sync.Map", func(old Value) (Value, bool) {
		ok := old.(Native).X.(string)
		cm.guardInstall(g, ok)
		res = op(x.smap(p))
		nk := cm.guardRemember(g)
		if nk == ok {
			return nil, false
		}
		return Native{X: nk}, true
	})
	return res
}

func init() {
	intrinsics[libPkg+"VerifGuarded"] = func(fr *frame, args []Value) Value {
		if fr.x.cm != nil {
			fr.x.cm.registerGuard(args[0])
		}
		return nil
	}
}

func init() {
	// lib.VerifShared(&x): ordinary loads and stores of this cell are events in concurrency mode
	// (for plain fields the real code shares between goroutines without atomics).
	intrinsics[libPkg+"VerifShared"] = func(fr *frame, args []Value) Value {
		if fr.x.cm != nil {
			v := args[0]
			if itf, ok := v.(Iface); ok {
				v = itf.V
			}
			if p, ok := v.(Ptr); ok && p != nil {
				fr.x.cm.markShared(p)
			}
		}
		return nil
	}
}
