package engine

import (
	"fmt"
	"go/types"
)

// Executor-level model of package reflect (the subset net/edf and friends use).
//
//	reflect.Type  = Iface{T: *reflect.rtype, V: Native{rtypeBox{types.Type}}}
//	reflect.Value = Struct{Native{*rval}, nil, 0}   (zero Value: Struct{nil, nil, 0})
//
// Methods of *reflect.rtype and reflect.Value are intrinsics over go/types and executor values.

type rtypeBox struct{ t types.Type }

type rval struct {
	t      types.Type
	val    Value // when !isAddr
	addr   Ptr   // when isAddr: the slot holding the value
	isAddr bool
}

func (r *rval) get() Value {
	if r.isAddr {
		return copyVal(*r.addr)
	}
	return r.val
}

func (x *Exec) rtypePtr() types.Type {
	if x.rtypeT != nil {
		return x.rtypeT
	}
	p := x.prog.ImportedPackage("reflect")
	if p == nil {
		x.unsupported("package reflect not loaded")
	}
	x.rtypeT = types.NewPointer(p.Type("rtype").Object().Type())
	return x.rtypeT
}

func (x *Exec) mkRType(t types.Type) Value {
	if t == nil {
		return Iface{}
	}
	return Iface{T: x.rtypePtr(), V: Native{X: rtypeBox{t}}}
}

func typeOfArg(v Value) types.Type {
	if i, ok := v.(Iface); ok {
		v = i.V
	}
	n, ok := v.(Native)
	if !ok {
		return nil
	}
	b, ok := n.X.(rtypeBox)
	if !ok {
		return nil
	}
	return b.t
}

func reflectTypeString(t types.Type) string {
	return types.TypeString(t, func(p *types.Package) string { return p.Name() })
}

func (x *Exec) mkRValue(r *rval) Value {
	return Struct{Native{X: r}, Ptr(nil), x.ts.BV(1, 64)}
}

func (x *Exec) rvOf(v Value, what string) *rval {
	st, ok := v.(Struct)
	if ok && len(st) == 3 {
		if n, ok := st[0].(Native); ok {
			if r, ok := n.X.(*rval); ok {
				return r
			}
		}
	}
	x.targetPanicStr("reflect: call of reflect.Value." + what + " on zero Value")
	return nil
}

func reflectKind(t types.Type) uint64 {
	switch u := t.Underlying().(type) {
	case *types.Basic:
		switch u.Kind() {
		case types.Bool:
			return 1
		case types.Int:
			return 2
		case types.Int8:
			return 3
		case types.Int16:
			return 4
		case types.Int32:
			return 5
		case types.Int64:
			return 6
		case types.Uint:
			return 7
		case types.Uint8:
			return 8
		case types.Uint16:
			return 9
		case types.Uint32:
			return 10
		case types.Uint64:
			return 11
		case types.Uintptr:
			return 12
		case types.Float32:
			return 13
		case types.Float64:
			return 14
		case types.Complex64:
			return 15
		case types.Complex128:
			return 16
		case types.String:
			return 24
		case types.UnsafePointer:
			return 26
		}
	case *types.Array:
		return 17
	case *types.Chan:
		return 18
	case *types.Signature:
		return 19
	case *types.Interface:
		return 20
	case *types.Map:
		return 21
	case *types.Pointer:
		return 22
	case *types.Slice:
		return 23
	case *types.Struct:
		return 25
	}
	return 0
}

// f32 <-> f64 for symbolic bit patterns: float64(f32) of a symbolic float32 is carried as a tagged
// 64-bit term so that converting back yields the original bits (no arithmetic is ever done on it).
const f32Tag = 0x7ff4f32f

func (x *Exec) f32to64(t *Term) *Term {
	if t.IsConst() {
		return x.floatConst(64, x.floatVal(t))
	}
	return x.ts.Concat(x.ts.BV(f32Tag, 32), t)
}

func (x *Exec) f64to32(t *Term) *Term {
	if t.IsConst() {
		return x.floatConst(32, x.floatVal(t))
	}
	if t.Op == OpConcat && t.Args[0].IsConst() && t.Args[0].C == f32Tag {
		return t.Args[1]
	}
	x.unsupported("symbolic float64 -> float32")
	return nil
}

// assign converts v (of type from) for storage into a location of type to.
func (x *Exec) reflectAssign(to, from types.Type, v Value) Value {
	if _, isI := to.Underlying().(*types.Interface); isI {
		if _, fromI := from.Underlying().(*types.Interface); !fromI {
			return Iface{T: from, V: copyVal(v)}
		}
	}
	return copyVal(v)
}

func (x *Exec) structFieldValue(st *types.Struct, i int) Value {
	f := st.Field(i)
	pkg := ""
	if !f.Exported() && f.Pkg() != nil {
		pkg = f.Pkg().Path()
	}
	idx := []Value{x.ts.BV(uint64(i), 64)}
	return Struct{
		x.mkStr(f.Name()),       // Name
		x.mkStr(pkg),            // PkgPath
		x.mkRType(f.Type()),     // Type
		x.mkStr(st.Tag(i)),      // Tag
		x.ts.BV(0, 64),          // Offset
		Slice{S: idx},           // Index
		x.ts.Bool(f.Embedded()), // Anonymous
	}
}

type rmapIter struct {
	m    *Map
	ents []*mapEnt
	i    int
	kt   types.Type
	vt   types.Type
}

func init() {
	reg := func(name string, f intrinsic) { intrinsics[name] = f }

	// ---- types ---------------------------------------------------------------------------
	reg("reflect.TypeOf", func(fr *frame, args []Value) Value {
		return fr.x.mkRType(args[0].(Iface).T)
	})
	reg("(*reflect.rtype).String", func(fr *frame, args []Value) Value {
		return fr.x.mkStr(reflectTypeString(typeOfArg(args[0])))
	})
	reg("(*reflect.rtype).Name", func(fr *frame, args []Value) Value {
		switch n := typeOfArg(args[0]).(type) {
		case *types.Named:
			return fr.x.mkStr(n.Obj().Name())
		case *types.Basic:
			return fr.x.mkStr(n.Name())
		}
		return fr.x.mkStr("")
	})
	reg("(*reflect.rtype).PkgPath", func(fr *frame, args []Value) Value {
		if n, ok := typeOfArg(args[0]).(*types.Named); ok && n.Obj().Pkg() != nil {
			return fr.x.mkStr(n.Obj().Pkg().Path())
		}
		return fr.x.mkStr("")
	})
	reg("(*reflect.rtype).Kind", func(fr *frame, args []Value) Value {
		return fr.x.ts.BV(reflectKind(typeOfArg(args[0])), 64)
	})
	reg("(*reflect.rtype).Elem", func(fr *frame, args []Value) Value {
		x := fr.x
		switch u := typeOfArg(args[0]).Underlying().(type) {
		case *types.Pointer:
			return x.mkRType(u.Elem())
		case *types.Slice:
			return x.mkRType(u.Elem())
		case *types.Array:
			return x.mkRType(u.Elem())
		case *types.Map:
			return x.mkRType(u.Elem())
		case *types.Chan:
			return x.mkRType(u.Elem())
		}
		x.targetPanicStr("reflect: Elem of invalid type " + typeOfArg(args[0]).String())
		return nil
	})
	reg("(*reflect.rtype).Key", func(fr *frame, args []Value) Value {
		if m, ok := typeOfArg(args[0]).Underlying().(*types.Map); ok {
			return fr.x.mkRType(m.Key())
		}
		fr.x.targetPanicStr("reflect: Key of non-map type")
		return nil
	})
	reg("(*reflect.rtype).Len", func(fr *frame, args []Value) Value {
		if a, ok := typeOfArg(args[0]).Underlying().(*types.Array); ok {
			return fr.x.ts.BV(uint64(a.Len()), 64)
		}
		fr.x.targetPanicStr("reflect: Len of non-array type")
		return nil
	})
	reg("(*reflect.rtype).NumField", func(fr *frame, args []Value) Value {
		if s, ok := typeOfArg(args[0]).Underlying().(*types.Struct); ok {
			return fr.x.ts.BV(uint64(s.NumFields()), 64)
		}
		fr.x.targetPanicStr("reflect: NumField of non-struct type")
		return nil
	})
	reg("(*reflect.rtype).Field", func(fr *frame, args []Value) Value {
		x := fr.x
		s, ok := typeOfArg(args[0]).Underlying().(*types.Struct)
		if !ok {
			x.targetPanicStr("reflect: Field of non-struct type")
		}
		i := x.concreteInt(args[1].(*Term), "Field index")
		if i < 0 || int(i) >= s.NumFields() {
			x.targetPanicStr("reflect: Field index out of bounds")
		}
		return x.structFieldValue(s, int(i))
	})
	reg("(*reflect.rtype).Implements", func(fr *frame, args []Value) Value {
		x := fr.x
		u := typeOfArg(args[1])
		if u == nil {
			x.targetPanicStr("reflect: nil type passed to Type.Implements")
		}
		it, ok := u.Underlying().(*types.Interface)
		if !ok {
			x.targetPanicStr("reflect: non-interface type passed to Type.Implements")
		}
		return x.ts.Bool(x.implements(typeOfArg(args[0]), it))
	})
	reg("(*reflect.rtype).Comparable", func(fr *frame, args []Value) Value {
		return fr.x.ts.Bool(types.Comparable(typeOfArg(args[0])))
	})
	reg("(*reflect.rtype).Size", func(fr *frame, args []Value) Value {
		return fr.x.ts.BV(uint64(types.SizesFor("gc", "amd64").Sizeof(typeOfArg(args[0]))), 64)
	})
	reg("reflect.PointerTo", func(fr *frame, args []Value) Value {
		return fr.x.mkRType(types.NewPointer(typeOfArg(args[0])))
	})
	reg("reflect.PtrTo", intrinsics["reflect.PointerTo"])
	reg("reflect.SliceOf", func(fr *frame, args []Value) Value {
		return fr.x.mkRType(types.NewSlice(typeOfArg(args[0])))
	})
	reg("reflect.MapOf", func(fr *frame, args []Value) Value {
		return fr.x.mkRType(types.NewMap(typeOfArg(args[0]), typeOfArg(args[1])))
	})
	reg("reflect.ArrayOf", func(fr *frame, args []Value) Value {
		x := fr.x
		n := x.concreteInt(args[0].(*Term), "ArrayOf length")
		if n < 0 {
			x.targetPanicStr("reflect: negative length passed to ArrayOf")
		}
		return x.mkRType(types.NewArray(typeOfArg(args[1]), n))
	})

	// ---- values --------------------------------------------------------------------------
	reg("reflect.ValueOf", func(fr *frame, args []Value) Value {
		x := fr.x
		i := args[0].(Iface)
		if i.T == nil {
			return x.zero(x.valueType())
		}
		return x.mkRValue(&rval{t: i.T, val: i.V})
	})
	reg("reflect.New", func(fr *frame, args []Value) Value {
		x := fr.x
		t := typeOfArg(args[0])
		if a, ok := t.Underlying().(*types.Array); ok {
			x.noteAlloc(a.Len() * elemSize(a.Elem()))
			if a.Len() > 1<<20 {
				x.targetPanicStr(fmt.Sprintf("runtime: out of memory (modelled: reflect.New of an array of %d elements)", a.Len()))
			}
		}
		v := x.zero(t)
		return x.mkRValue(&rval{t: types.NewPointer(t), val: Ptr(&v)})
	})
	reg("reflect.Zero", func(fr *frame, args []Value) Value {
		x := fr.x
		t := typeOfArg(args[0])
		return x.mkRValue(&rval{t: t, val: x.zero(t)})
	})
	reg("reflect.Indirect", func(fr *frame, args []Value) Value {
		x := fr.x
		r := x.rvOf(args[0], "Indirect")
		if p, ok := r.t.Underlying().(*types.Pointer); ok {
			ptr := r.get().(Ptr)
			if ptr == nil {
				return x.zero(x.valueType())
			}
			return x.mkRValue(&rval{t: p.Elem(), addr: ptr, isAddr: true})
		}
		return args[0]
	})
	reg("reflect.MakeSlice", func(fr *frame, args []Value) Value {
		x := fr.x
		t := typeOfArg(args[0])
		ln := x.concreteInt(args[1].(*Term), "MakeSlice len")
		cp := x.concreteInt(args[2].(*Term), "MakeSlice cap")
		if ln < 0 || cp < ln {
			x.targetPanicStr("reflect.MakeSlice: len/cap out of range")
		}
		el := t.Underlying().(*types.Slice).Elem()
		x.noteAlloc(cp * elemSize(el))
		if cp > 1<<20 {
			x.targetPanicStr(fmt.Sprintf("runtime: out of memory (modelled: reflect.MakeSlice of %d elements)", cp))
		}
		return x.mkRValue(&rval{t: t, val: Slice{S: x.makeBacking(el, int(cp))[:ln]}})
	})
	mkMap := func(fr *frame, args []Value) Value {
		x := fr.x
		t := typeOfArg(args[0])
		mt := t.Underlying().(*types.Map)
		if len(args) > 1 {
			n := x.concreteInt(args[1].(*Term), "MakeMapWithSize")
			x.noteAlloc(n * (elemSize(mt.Key()) + elemSize(mt.Elem())))
		}
		x.mapSeq++
		return x.mkRValue(&rval{t: t, val: &Map{kt: mt.Key(), vt: mt.Elem(), id: x.mapSeq}})
	}
	reg("reflect.MakeMap", mkMap)
	reg("reflect.MakeMapWithSize", mkMap)

	reg("(reflect.Value).Type", func(fr *frame, args []Value) Value {
		return fr.x.mkRType(fr.x.rvOf(args[0], "Type").t)
	})
	reg("(reflect.Value).Kind", func(fr *frame, args []Value) Value {
		x := fr.x
		st, ok := args[0].(Struct)
		if ok {
			if _, isN := st[0].(Native); !isN {
				return x.ts.BV(0, 64)
			}
		}
		return x.ts.BV(reflectKind(x.rvOf(args[0], "Kind").t), 64)
	})
	reg("(reflect.Value).IsValid", func(fr *frame, args []Value) Value {
		st := args[0].(Struct)
		_, isN := st[0].(Native)
		return fr.x.ts.Bool(isN)
	})
	reg("(reflect.Value).CanSet", func(fr *frame, args []Value) Value {
		return fr.x.ts.Bool(fr.x.rvOf(args[0], "CanSet").isAddr)
	})
	reg("(reflect.Value).CanAddr", func(fr *frame, args []Value) Value {
		return fr.x.ts.Bool(fr.x.rvOf(args[0], "CanAddr").isAddr)
	})
	reg("(reflect.Value).Interface", func(fr *frame, args []Value) Value {
		x := fr.x
		r := x.rvOf(args[0], "Interface")
		if _, isI := r.t.Underlying().(*types.Interface); isI {
			return r.get()
		}
		return Iface{T: r.t, V: r.get()}
	})
	reg("(reflect.Value).Elem", func(fr *frame, args []Value) Value {
		x := fr.x
		r := x.rvOf(args[0], "Elem")
		switch u := r.t.Underlying().(type) {
		case *types.Pointer:
			ptr := r.get().(Ptr)
			if ptr == nil {
				return x.zero(x.valueType())
			}
			return x.mkRValue(&rval{t: u.Elem(), addr: ptr, isAddr: true})
		case *types.Interface:
			i := r.get().(Iface)
			if i.T == nil {
				return x.zero(x.valueType())
			}
			return x.mkRValue(&rval{t: i.T, val: i.V})
		}
		x.targetPanicStr("reflect: call of reflect.Value.Elem on " + r.t.String() + " Value")
		return nil
	})
	reg("(reflect.Value).Addr", func(fr *frame, args []Value) Value {
		x := fr.x
		r := x.rvOf(args[0], "Addr")
		if !r.isAddr {
			x.targetPanicStr("reflect.Value.Addr of unaddressable value")
		}
		return x.mkRValue(&rval{t: types.NewPointer(r.t), val: r.addr})
	})
	reg("(reflect.Value).IsNil", func(fr *frame, args []Value) Value {
		x := fr.x
		r := x.rvOf(args[0], "IsNil")
		switch v := r.get().(type) {
		case Ptr:
			return x.ts.Bool(v == nil)
		case Slice:
			return x.ts.Bool(v.Nil)
		case *Map:
			return x.ts.Bool(v == nil)
		case *Chan:
			return x.ts.Bool(v == nil)
		case Iface:
			return x.ts.Bool(v.T == nil)
		default:
			if isNilFunc(v) {
				return x.ts.T
			}
			if _, ok := r.t.Underlying().(*types.Signature); ok {
				return x.ts.F
			}
		}
		x.targetPanicStr("reflect: call of reflect.Value.IsNil on " + r.t.String() + " Value")
		return nil
	})
	reg("(reflect.Value).IsZero", func(fr *frame, args []Value) Value {
		x := fr.x
		r := x.rvOf(args[0], "IsZero")
		return x.equal(r.t, r.get(), x.zero(r.t))
	})
	reg("(reflect.Value).Int", func(fr *frame, args []Value) Value {
		x := fr.x
		r := x.rvOf(args[0], "Int")
		return x.ts.SExt(r.get().(*Term), 64)
	})
	reg("(reflect.Value).Uint", func(fr *frame, args []Value) Value {
		x := fr.x
		r := x.rvOf(args[0], "Uint")
		return x.ts.ZExt(r.get().(*Term), 64)
	})
	reg("(reflect.Value).Bool", func(fr *frame, args []Value) Value {
		return fr.x.rvOf(args[0], "Bool").get()
	})
	reg("(reflect.Value).String", func(fr *frame, args []Value) Value {
		x := fr.x
		r := x.rvOf(args[0], "String")
		if s, ok := r.get().(Str); ok {
			return s
		}
		return x.mkStr("<" + reflectTypeString(r.t) + " Value>")
	})
	reg("(reflect.Value).Float", func(fr *frame, args []Value) Value {
		x := fr.x
		r := x.rvOf(args[0], "Float")
		t := r.get().(*Term)
		if t.W == 32 {
			return x.f32to64(t)
		}
		return t
	})
	reg("(reflect.Value).Bytes", func(fr *frame, args []Value) Value {
		x := fr.x
		r := x.rvOf(args[0], "Bytes")
		switch v := r.get().(type) {
		case Slice:
			return v
		case Array:
			if r.isAddr {
				return Slice{S: (*r.addr).(Array)}
			}
			return Slice{S: v}
		}
		x.targetPanicStr("reflect.Value.Bytes of non-byte slice")
		return nil
	})
	reg("(reflect.Value).Len", func(fr *frame, args []Value) Value {
		x := fr.x
		r := x.rvOf(args[0], "Len")
		switch v := r.get().(type) {
		case Slice:
			return x.ts.BV(uint64(len(v.S)), 64)
		case Array:
			return x.ts.BV(uint64(len(v)), 64)
		case Str:
			return x.ts.BV(uint64(v.Len()), 64)
		case *Map:
			if v == nil {
				return x.ts.BV(0, 64)
			}
			return x.ts.BV(uint64(len(v.ents)), 64)
		case *Chan:
			if v == nil {
				return x.ts.BV(0, 64)
			}
			return x.ts.BV(uint64(len(v.buf)), 64)
		}
		x.targetPanicStr("reflect: call of reflect.Value.Len on " + r.t.String() + " Value")
		return nil
	})
	reg("(reflect.Value).Cap", func(fr *frame, args []Value) Value {
		x := fr.x
		r := x.rvOf(args[0], "Cap")
		switch v := r.get().(type) {
		case Slice:
			return x.ts.BV(uint64(cap(v.S)), 64)
		case Array:
			return x.ts.BV(uint64(len(v)), 64)
		}
		x.targetPanicStr("reflect: call of reflect.Value.Cap on " + r.t.String() + " Value")
		return nil
	})
	reg("(reflect.Value).NumField", func(fr *frame, args []Value) Value {
		x := fr.x
		r := x.rvOf(args[0], "NumField")
		s, ok := r.t.Underlying().(*types.Struct)
		if !ok {
			x.targetPanicStr("reflect: call of reflect.Value.NumField on non-struct Value")
		}
		return x.ts.BV(uint64(s.NumFields()), 64)
	})
	reg("(reflect.Value).Field", func(fr *frame, args []Value) Value {
		x := fr.x
		r := x.rvOf(args[0], "Field")
		s, ok := r.t.Underlying().(*types.Struct)
		if !ok {
			x.targetPanicStr("reflect: call of reflect.Value.Field on non-struct Value")
		}
		i := x.concreteInt(args[1].(*Term), "Field index")
		if i < 0 || int(i) >= s.NumFields() {
			x.targetPanicStr("reflect: Field index out of range")
		}
		ft := s.Field(int(i)).Type()
		if r.isAddr {
			return x.mkRValue(&rval{t: ft, addr: &(*r.addr).(Struct)[i], isAddr: true})
		}
		return x.mkRValue(&rval{t: ft, val: r.val.(Struct)[i]})
	})
	reg("(reflect.Value).Index", func(fr *frame, args []Value) Value {
		x := fr.x
		r := x.rvOf(args[0], "Index")
		i := x.concreteInt(args[1].(*Term), "Index")
		switch u := r.t.Underlying().(type) {
		case *types.Slice:
			s := r.get().(Slice)
			if i < 0 || int(i) >= len(s.S) {
				x.targetPanicStr("reflect: slice index out of range")
			}
			return x.mkRValue(&rval{t: u.Elem(), addr: &s.S[i], isAddr: true})
		case *types.Array:
			if r.isAddr {
				a := (*r.addr).(Array)
				if i < 0 || int(i) >= len(a) {
					x.targetPanicStr("reflect: array index out of range")
				}
				return x.mkRValue(&rval{t: u.Elem(), addr: &a[i], isAddr: true})
			}
			a := r.val.(Array)
			if i < 0 || int(i) >= len(a) {
				x.targetPanicStr("reflect: array index out of range")
			}
			return x.mkRValue(&rval{t: u.Elem(), val: a[i]})
		case *types.Basic:
			s := r.get().(Str)
			if i < 0 || int(i) >= s.Len() {
				x.targetPanicStr("reflect: string index out of range")
			}
			return x.mkRValue(&rval{t: types.Typ[types.Uint8], val: x.strBytes(s)[i]})
		}
		x.targetPanicStr("reflect: call of reflect.Value.Index on " + r.t.String() + " Value")
		return nil
	})
	reg("(reflect.Value).Set", func(fr *frame, args []Value) Value {
		x := fr.x
		r := x.rvOf(args[0], "Set")
		if !r.isAddr {
			x.targetPanicStr("reflect: reflect.Value.Set using unaddressable value")
		}
		src := x.rvOf(args[1], "Set")
		if !types.AssignableTo(src.t, r.t) {
			x.targetPanicStr("reflect.Set: value of type " + src.t.String() + " is not assignable to type " + r.t.String())
		}
		x.store(r.addr, x.reflectAssign(r.t, src.t, src.get()))
		return nil
	})
	setScalar := func(name string) {
		reg("(reflect.Value)."+name, func(fr *frame, args []Value) Value {
			x := fr.x
			r := x.rvOf(args[0], name)
			if !r.isAddr {
				x.targetPanicStr("reflect: reflect.Value." + name + " using unaddressable value")
			}
			w := x.widthOf(r.t)
			switch v := args[1].(type) {
			case *Term:
				if name == "SetFloat" {
					if w == 32 {
						x.store(r.addr, x.f64to32(v))
					} else {
						x.store(r.addr, v)
					}
				} else if w == 0 {
					x.store(r.addr, v)
				} else if w > 0 {
					x.store(r.addr, x.ts.Extract(v, w-1, 0))
				} else {
					x.targetPanicStr("reflect: " + name + " on " + r.t.String())
				}
			default:
				x.store(r.addr, copyVal(v))
			}
			return nil
		})
	}
	for _, n := range []string{"SetInt", "SetUint", "SetBool", "SetFloat", "SetString", "SetBytes"} {
		setScalar(n)
	}
	reg("(reflect.Value).SetLen", func(fr *frame, args []Value) Value {
		x := fr.x
		r := x.rvOf(args[0], "SetLen")
		s := (*r.addr).(Slice)
		n := x.concreteInt(args[1].(*Term), "SetLen")
		if n < 0 || int(n) > cap(s.S) {
			x.targetPanicStr("reflect: slice length out of range in SetLen")
		}
		x.store(r.addr, Slice{S: s.S[:n]})
		return nil
	})
	reg("(reflect.Value).MapIndex", func(fr *frame, args []Value) Value {
		x := fr.x
		r := x.rvOf(args[0], "MapIndex")
		m := r.get().(*Map)
		k := x.rvOf(args[1], "MapIndex")
		mt := r.t.Underlying().(*types.Map)
		if i := x.mapFind(m, x.reflectAssign(mt.Key(), k.t, k.get())); i >= 0 {
			return x.mkRValue(&rval{t: mt.Elem(), val: copyVal(m.ents[i].v)})
		}
		return x.zero(x.valueType())
	})
	reg("(reflect.Value).SetMapIndex", func(fr *frame, args []Value) Value {
		x := fr.x
		r := x.rvOf(args[0], "SetMapIndex")
		m := r.get().(*Map)
		if m == nil {
			x.targetPanicStr("assignment to entry in nil map")
		}
		mt := r.t.Underlying().(*types.Map)
		k := x.rvOf(args[1], "SetMapIndex")
		key := x.reflectAssign(mt.Key(), k.t, k.get())
		if st, ok := args[2].(Struct); ok {
			if _, valid := st[0].(Native); !valid {
				x.mapDelete(m, key)
				return nil
			}
		}
		v := x.rvOf(args[2], "SetMapIndex")
		x.mapSet(m, key, x.reflectAssign(mt.Elem(), v.t, v.get()))
		return nil
	})
	reg("(reflect.Value).MapRange", func(fr *frame, args []Value) Value {
		x := fr.x
		r := x.rvOf(args[0], "MapRange")
		m := r.get().(*Map)
		mt := r.t.Underlying().(*types.Map)
		it := &rmapIter{m: m, kt: mt.Key(), vt: mt.Elem(), i: -1}
		if m != nil {
			it.ents = m.ents
		}
		var v Value = Native{X: it}
		return Ptr(&v)
	})
	iterOf := func(x *Exec, v Value) *rmapIter {
		p := v.(Ptr)
		return (*p).(Native).X.(*rmapIter)
	}
	reg("(*reflect.MapIter).Next", func(fr *frame, args []Value) Value {
		it := iterOf(fr.x, args[0])
		it.i++
		return fr.x.ts.Bool(it.i < len(it.ents))
	})
	reg("(*reflect.MapIter).Key", func(fr *frame, args []Value) Value {
		it := iterOf(fr.x, args[0])
		return fr.x.mkRValue(&rval{t: it.kt, val: copyVal(it.ents[it.i].k)})
	})
	reg("(*reflect.MapIter).Value", func(fr *frame, args []Value) Value {
		it := iterOf(fr.x, args[0])
		return fr.x.mkRValue(&rval{t: it.vt, val: copyVal(it.ents[it.i].v)})
	})
	reg("(reflect.Value).Convert", func(fr *frame, args []Value) Value {
		x := fr.x
		r := x.rvOf(args[0], "Convert")
		t := typeOfArg(args[1])
		return x.mkRValue(&rval{t: t, val: x.conv(t, r.t, r.get())})
	})
	reg("reflect.Append", func(fr *frame, args []Value) Value {
		x := fr.x
		r := x.rvOf(args[0], "Append")
		s := r.get().(Slice)
		out := append([]Value{}, s.S...)
		for _, a := range args[1].(Slice).S {
			e := x.rvOf(a, "Append")
			out = append(out, x.reflectAssign(r.t.Underlying().(*types.Slice).Elem(), e.t, e.get()))
		}
		return x.mkRValue(&rval{t: r.t, val: Slice{S: out}})
	})
}

func (x *Exec) valueType() types.Type {
	return x.prog.ImportedPackage("reflect").Type("Value").Object().Type()
}
