package engine

import (
	"go/types"
)

// Executor-level model of package reflect. A reflect.Type is Iface{T: *reflect.rtype, V: Native{types.Type}};
// methods of *reflect.rtype are intrinsics over go/types.

func (x *Exec) rtypePtr() types.Type {
	if x.rtypeT != nil {
		return x.rtypeT
	}
	p := x.prog.ImportedPackage("reflect")
	if p == nil {
		x.unsupported("package reflect not loaded")
	}
	x.rtypeT = types.NewPointer(p.Type("rtype").Object().Type())
	return x.rtypeT
}

func (x *Exec) mkRType(t types.Type) Value {
	if t == nil {
		return Iface{}
	}
	return Iface{T: x.rtypePtr(), V: Native{X: rtypeBox{t}}}
}

// rtypeBox makes types.Type comparable by identity of the canonical type string.
type rtypeBox struct{ t types.Type }

func typeOfArg(v Value) types.Type {
	n, ok := v.(Native)
	if !ok {
		return nil
	}
	b, ok := n.X.(rtypeBox)
	if !ok {
		return nil
	}
	return b.t
}

func reflectTypeString(t types.Type) string {
	return types.TypeString(t, func(p *types.Package) string { return p.Name() })
}

func init() {
	reg := func(name string, f intrinsic) { intrinsics[name] = f }
	reg("reflect.TypeOf", func(fr *frame, args []Value) Value {
		i := args[0].(Iface)
		return fr.x.mkRType(i.T)
	})
	reg("(*reflect.rtype).String", func(fr *frame, args []Value) Value {
		return fr.x.mkStr(reflectTypeString(typeOfArg(args[0])))
	})
	reg("(*reflect.rtype).Name", func(fr *frame, args []Value) Value {
		if n, ok := typeOfArg(args[0]).(*types.Named); ok {
			return fr.x.mkStr(n.Obj().Name())
		}
		if b, ok := typeOfArg(args[0]).(*types.Basic); ok {
			return fr.x.mkStr(b.Name())
		}
		return fr.x.mkStr("")
	})
	reg("(*reflect.rtype).PkgPath", func(fr *frame, args []Value) Value {
		if n, ok := typeOfArg(args[0]).(*types.Named); ok && n.Obj().Pkg() != nil {
			return fr.x.mkStr(n.Obj().Pkg().Path())
		}
		return fr.x.mkStr("")
	})
}
